//! Deterministic scheduler for lock-granularity interleaving exploration (engine E4).
//!
//! The instrumented forks of `parking_lot` and `dashmap` (see ../../shims) call
//! `acquire` / `try_acquire` / `release` / `downgrade` around every raw lock operation.
//! For threads that are not registered with a running schedule these calls are a
//! thread-local read and nothing else.
//!
//! `run(bodies, decisions, opts)` runs each body on its own OS thread but lets exactly one
//! of them run at a time (baton passing).  Every lock acquisition is a scheduling point.
//! The scheduler keeps its own model of lock holders (a reader blocks only on a writer,
//! a writer on anybody: the weakest RwLock model, so a reported deadlock is a deadlock
//! under any RwLock implementation).  "No runnable thread while some thread is blocked"
//! is a deterministic deadlock verdict; all threads are then unwound.

use std::cell::Cell;
use std::collections::{BTreeSet, HashMap};
use std::sync::atomic::{AtomicU64, Ordering};
use std::sync::{Condvar, Mutex, MutexGuard};

#[derive(Clone, Copy, PartialEq, Eq, Debug)]
pub enum Mode {
    Shared,
    Excl,
}

#[derive(Clone, Copy, PartialEq, Debug)]
enum St {
    Runnable,
    Blocked(usize, Mode),
    Finished,
}

#[derive(Default)]
struct LockSt {
    id: usize,
    writer: Option<usize>,
    readers: Vec<usize>,
}

#[derive(Clone, Copy, PartialEq, Eq, Debug)]
pub enum Op {
    Acquire,
    Block,
    TryOk,
    TryFail,
    Release,
    Downgrade,
    Yield,
    Finish,
}

#[derive(Clone, Debug)]
pub struct Ev {
    pub step: u64,
    pub tid: usize,
    pub op: Op,
    pub lock: usize,
    pub mode: Mode,
}

#[derive(Clone, Debug)]
pub struct Opts {
    pub step_limit: u64,
    pub trace: bool,
    /// decisions are explicit choice indices (0 = stay / lowest) instead of threshold bytes
    pub explicit: bool,
    /// reuse the decision bytes cyclically when they are exhausted (instead of zeros)
    pub cycle: bool,
    /// override: decide only at exclusive acquisitions (None: taken from the decision bytes)
    pub excl_only: Option<bool>,
}

impl Default for Opts {
    fn default() -> Self {
        Opts { step_limit: 200_000, trace: false, explicit: false, cycle: false, excl_only: None }
    }
}

#[derive(Clone, Debug, PartialEq)]
pub enum Outcome {
    Completed,
    /// (thread, lock id, mode) of every blocked thread
    Deadlock(Vec<(usize, usize, Mode)>),
    StepLimit,
}

#[derive(Clone, Debug)]
pub struct Report {
    pub outcome: Outcome,
    pub steps: u64,
    pub switches: u64,
    /// switches away from a still-runnable thread
    pub preemptions: u64,
    /// preemptions that happened while the preempted thread held at least one lock
    pub preemptions_holding: u64,
    pub trace: Vec<Ev>,
    /// (number of alternatives, index chosen, current thread was runnable) per decision
    pub choices: Vec<(u8, u8, bool)>,
    /// held -> acquired lock-id edges observed
    pub lock_order_edges: Vec<(usize, usize)>,
    /// per thread: Some(message) if the body panicked (not a scheduler abort)
    pub panics: Vec<Option<String>>,
}

struct State {
    aborted: bool,
    current: usize,
    threads: Vec<St>,
    held: Vec<Vec<usize>>,
    locks: HashMap<usize, LockSt>,
    decisions: Vec<u8>,
    pos: usize,
    theta: u8,
    /// preempt only at exclusive acquisitions (mutex / write locks)
    excl_only: bool,
    opts: Opts,
    steps: u64,
    switches: u64,
    preemptions: u64,
    preemptions_holding: u64,
    outcome: Option<Outcome>,
    trace: Vec<Ev>,
    choices: Vec<(u8, u8, bool)>,
    edges: BTreeSet<(usize, usize)>,
}

static STATE: Mutex<Option<State>> = Mutex::new(None);
static CV: Condvar = Condvar::new();
static STEP: AtomicU64 = AtomicU64::new(0);

thread_local! {
    static TID: Cell<Option<usize>> = const { Cell::new(None) };
}

/// Payload used to unwind scheduled threads after a verdict.
pub struct Abort;

fn lock_state() -> MutexGuard<'static, Option<State>> {
    match STATE.lock() {
        Ok(g) => g,
        Err(p) => p.into_inner(),
    }
}

/// Logical time: number of scheduling points passed in the current run.
pub fn now() -> u64 {
    STEP.load(Ordering::SeqCst)
}

pub fn current_tid() -> Option<usize> {
    TID.with(|t| t.get())
}

fn avail(l: &LockSt, me: usize, m: Mode) -> bool {
    let _ = me;
    match m {
        Mode::Excl => l.writer.is_none() && l.readers.is_empty(),
        Mode::Shared => l.writer.is_none(),
    }
}

impl State {
    fn lock_id(&mut self, addr: usize) -> usize {
        let n = self.locks.len();
        let l = self.locks.entry(addr).or_default();
        if l.id == 0 {
            l.id = n + 1;
        }
        l.id
    }

    fn ev(&mut self, tid: usize, op: Op, addr: usize, mode: Mode) {
        if self.opts.trace {
            let id = if addr == 0 { 0 } else { self.lock_id(addr) };
            self.trace.push(Ev { step: self.steps, tid, op, lock: id, mode });
        }
    }

    fn next_byte(&mut self) -> u8 {
        if self.pos < self.decisions.len() {
            let b = self.decisions[self.pos];
            self.pos += 1;
            b
        } else if self.opts.cycle && !self.decisions.is_empty() {
            let b = self.decisions[self.pos % self.decisions.len()];
            self.pos += 1;
            b
        } else {
            0
        }
    }

    /// Choose the next thread to run.  `me_runnable`: the calling thread could continue.
    fn pick_next(&mut self, me_runnable: bool, me: usize) {
        let others: Vec<usize> = (0..self.threads.len())
            .filter(|&i| self.threads[i] == St::Runnable && !(me_runnable && i == me))
            .collect();
        if !me_runnable && others.is_empty() {
            if self.threads.iter().any(|t| matches!(t, St::Blocked(..))) {
                let mut w = Vec::new();
                for i in 0..self.threads.len() {
                    if let St::Blocked(a, m) = self.threads[i] {
                        let id = self.lock_id(a);
                        w.push((i, id, m));
                    }
                }
                self.outcome = Some(Outcome::Deadlock(w));
                self.aborted = true;
            }
            self.current = usize::MAX;
            return;
        }
        let n_alt = others.len() + if me_runnable { 1 } else { 0 };
        let (next, chosen) = if n_alt == 1 {
            (if me_runnable { me } else { others[0] }, 0u8)
        } else if self.opts.explicit {
            let c = (self.next_byte() as usize).min(n_alt - 1);
            if me_runnable {
                if c == 0 { (me, 0) } else { (others[c - 1], c as u8) }
            } else {
                (others[c], c as u8)
            }
        } else {
            let b = self.next_byte();
            if me_runnable {
                if b < self.theta {
                    (me, 0)
                } else {
                    let span = 256 - self.theta as usize;
                    let i = ((b - self.theta) as usize * others.len()) / span;
                    (others[i.min(others.len() - 1)], (i + 1) as u8)
                }
            } else {
                let i = (b as usize * others.len()) >> 8;
                (others[i], i as u8)
            }
        };
        if n_alt > 1 {
            self.choices.push((n_alt as u8, chosen, me_runnable));
        }
        if next != self.current {
            self.switches += 1;
            if me_runnable {
                self.preemptions += 1;
                if !self.held[me].is_empty() {
                    self.preemptions_holding += 1;
                }
            }
        }
        self.current = next;
    }

    fn step(&mut self) -> bool {
        self.steps += 1;
        STEP.store(self.steps, Ordering::SeqCst);
        if self.steps > self.opts.step_limit {
            self.outcome = Some(Outcome::StepLimit);
            self.aborted = true;
            self.current = usize::MAX;
            return false;
        }
        true
    }

    fn grant(&mut self, addr: usize, me: usize, m: Mode) {
        let my_held: Vec<usize> = self.held[me].clone();
        let id = self.lock_id(addr);
        for h in my_held {
            if h != addr {
                let hid = self.lock_id(h);
                self.edges.insert((hid, id));
            }
        }
        let l = self.locks.get_mut(&addr).unwrap();
        match m {
            Mode::Excl => l.writer = Some(me),
            Mode::Shared => l.readers.push(me),
        }
        self.held[me].push(addr);
    }
}

fn wait_turn(
    mut g: MutexGuard<'static, Option<State>>,
    me: usize,
) -> MutexGuard<'static, Option<State>> {
    loop {
        {
            let s = g.as_ref().unwrap();
            if s.aborted {
                drop(g);
                std::panic::resume_unwind(Box::new(Abort));
            }
            if s.current == me {
                return g;
            }
        }
        g = match CV.wait(g) {
            Ok(g) => g,
            Err(p) => p.into_inner(),
        };
    }
}

fn sched_point(me: usize, m: Mode) -> Option<MutexGuard<'static, Option<State>>> {
    let mut g = lock_state();
    {
        let s = match g.as_mut() {
            Some(s) => s,
            None => return None,
        };
        if s.aborted {
            return None;
        }
        if !s.step() {
            drop(g);
            CV.notify_all();
            std::panic::resume_unwind(Box::new(Abort));
        }
        if s.excl_only && m == Mode::Shared {
            return Some(g);
        }
        s.pick_next(true, me);
        if s.current == me {
            return Some(g);
        }
    }
    CV.notify_all();
    Some(wait_turn(g, me))
}

/// Called before a blocking lock acquisition.
thread_local! {
    /// delay injection for free-running (unscheduled) threads: (lock operations to go, microseconds)
    static DELAY: Cell<(u32, u32)> = const { Cell::new((0, 0)) };
    static DELAY_FIRED: Cell<bool> = const { Cell::new(false) };
}

/// Free-running threads only: sleep `micros` microseconds just before this thread's `after`-th
/// lock acquisition from now (noise injection for races the scheduler cannot own, e.g. around
/// `std::sync::Once`).
pub fn set_delay(after: u32, micros: u32) {
    DELAY.with(|d| d.set((after, micros)));
    DELAY_FIRED.with(|f| f.set(false));
}

/// Clears the plan; true if the delay was injected.
pub fn clear_delay() -> bool {
    DELAY.with(|d| d.set((0, 0)));
    DELAY_FIRED.with(|f| f.replace(false))
}

thread_local! {
    /// free-running threads: (lock releases to go, microseconds) - keep a lock a while longer
    static HOLD: Cell<(u32, u32)> = const { Cell::new((0, 0)) };
}

/// Free-running threads only: sleep `micros` microseconds just before this thread's `after`-th
/// lock release from now, i.e. hold that lock longer (timed lock attempts of other threads
/// then run into their timeouts).
pub fn set_hold(after: u32, micros: u32) {
    HOLD.with(|d| d.set((after, micros)));
}

pub fn clear_hold() {
    HOLD.with(|d| d.set((0, 0)));
}

fn hold_point() {
    let (n, us) = HOLD.with(|d| d.get());
    if n > 0 {
        HOLD.with(|d| d.set((n - 1, us)));
        if n == 1 {
            std::thread::sleep(std::time::Duration::from_micros(us as u64));
        }
    }
}

fn delay_point() {
    let (n, us) = DELAY.with(|d| d.get());
    if n > 0 {
        DELAY.with(|d| d.set((n - 1, us)));
        if n == 1 {
            DELAY_FIRED.with(|f| f.set(true));
            std::thread::sleep(std::time::Duration::from_micros(us as u64));
        }
    }
}

pub fn acquire(addr: usize, m: Mode) {
    let Some(me) = TID.with(|t| t.get()) else {
        delay_point();
        return;
    };
    let Some(mut g) = sched_point(me, m) else { return };
    loop {
        let s = g.as_mut().unwrap();
        s.lock_id(addr);
        let l = s.locks.get(&addr).unwrap();
        if avail(l, me, m) {
            s.grant(addr, me, m);
            s.ev(me, Op::Acquire, addr, m);
            return;
        }
        s.ev(me, Op::Block, addr, m);
        s.threads[me] = St::Blocked(addr, m);
        s.pick_next(false, me);
        CV.notify_all();
        g = wait_turn(g, me);
    }
}

/// Called before a try-lock.  `None`: thread not scheduled, proceed with the real try.
pub fn try_acquire(addr: usize, m: Mode) -> Option<bool> {
    let me = TID.with(|t| t.get())?;
    let mut g = sched_point(me, m)?;
    let s = g.as_mut().unwrap();
    s.lock_id(addr);
    let l = s.locks.get(&addr).unwrap();
    if avail(l, me, m) {
        s.grant(addr, me, m);
        s.ev(me, Op::TryOk, addr, m);
        Some(true)
    } else {
        s.ev(me, Op::TryFail, addr, m);
        Some(false)
    }
}

/// Called right before the real unlock.  Also a scheduling point: the thread may be
/// preempted while it still holds the lock, so that other threads run *inside* its critical
/// section (a blocking acquisition by them just blocks; a try-lock observes the lock held).
pub fn release(addr: usize, m: Mode) {
    let Some(me) = TID.with(|t| t.get()) else {
        hold_point();
        return;
    };
    let g = if std::thread::panicking() { None } else { sched_point(me, m) };
    let mut g = match g {
        Some(g) => g,
        None => lock_state(),
    };
    let Some(s) = g.as_mut() else { return };
    if s.aborted {
        return;
    }
    if let Some(l) = s.locks.get_mut(&addr) {
        match m {
            Mode::Excl => {
                if l.writer == Some(me) {
                    l.writer = None;
                }
            }
            Mode::Shared => {
                if let Some(p) = l.readers.iter().position(|&t| t == me) {
                    l.readers.swap_remove(p);
                }
            }
        }
    }
    if let Some(p) = s.held[me].iter().rposition(|&a| a == addr) {
        s.held[me].remove(p);
    }
    s.ev(me, Op::Release, addr, m);
    for t in s.threads.iter_mut() {
        if let St::Blocked(a, _) = *t {
            if a == addr {
                *t = St::Runnable;
            }
        }
    }
}

/// Called right before a write->read downgrade.
pub fn downgrade(addr: usize) {
    let Some(me) = TID.with(|t| t.get()) else { return };
    let mut g = lock_state();
    let Some(s) = g.as_mut() else { return };
    if s.aborted {
        return;
    }
    if let Some(l) = s.locks.get_mut(&addr) {
        if l.writer == Some(me) {
            l.writer = None;
            l.readers.push(me);
        }
    }
    s.ev(me, Op::Downgrade, addr, Mode::Shared);
    for t in s.threads.iter_mut() {
        if let St::Blocked(a, Mode::Shared) = *t {
            if a == addr {
                *t = St::Runnable;
            }
        }
    }
}

/// Explicit scheduling point (no lock involved); no-op for unregistered threads.
pub fn yield_point() {
    let Some(me) = TID.with(|t| t.get()) else { return };
    if let Some(mut g) = sched_point(me, Mode::Excl) {
        let s = g.as_mut().unwrap();
        s.ev(me, Op::Yield, 0, Mode::Shared);
    }
}

/// Locks currently held (by lock id) by the calling scheduled thread.
pub fn held_by_me() -> Vec<usize> {
    let Some(me) = TID.with(|t| t.get()) else { return Vec::new() };
    let mut g = lock_state();
    let Some(s) = g.as_mut() else { return Vec::new() };
    let hs = s.held[me].clone();
    hs.into_iter().map(|a| s.lock_id(a)).collect()
}

fn panic_msg(p: &Box<dyn std::any::Any + Send>) -> String {
    if let Some(s) = p.downcast_ref::<&str>() {
        s.to_string()
    } else if let Some(s) = p.downcast_ref::<String>() {
        s.clone()
    } else {
        "<non-string panic>".to_string()
    }
}

pub type Body = Box<dyn FnOnce() + Send + 'static>;

/// Run the bodies under the schedule given by `decisions`.
pub fn run(bodies: Vec<Body>, decisions: &[u8], opts: Opts) -> Report {
    let n = bodies.len();
    let excl_only = opts.excl_only.unwrap_or(!opts.explicit && decisions.first().map(|b| b & 0x10 != 0).unwrap_or(false));
    let (theta, rest) = if opts.explicit {
        (0u8, decisions)
    } else {
        let t = match decisions.first().copied().unwrap_or(0) >> 5 {
            0 => 192u8,
            1 => 224,
            2 => 240,
            3 => 248,
            4 => 252,
            5 => 254,
            6 => 128,
            _ => 232,
        };
        (t, if decisions.is_empty() { decisions } else { &decisions[1..] })
    };
    STEP.store(0, Ordering::SeqCst);
    {
        let mut st = State {
            aborted: false,
            current: usize::MAX,
            threads: vec![St::Runnable; n],
            held: vec![Vec::new(); n],
            locks: HashMap::new(),
            decisions: rest.to_vec(),
            pos: 0,
            theta,
            excl_only,
            opts: opts.clone(),
            steps: 0,
            switches: 0,
            preemptions: 0,
            preemptions_holding: 0,
            outcome: None,
            trace: Vec::new(),
            choices: Vec::new(),
            edges: BTreeSet::new(),
        };
        if n > 0 {
            st.pick_next(false, usize::MAX);
            st.switches = 0;
        }
        *lock_state() = Some(st);
    }
    let handles: Vec<_> = bodies
        .into_iter()
        .enumerate()
        .map(|(i, b)| {
            std::thread::Builder::new()
                .stack_size(1 << 20)
                .spawn(move || {
                    TID.with(|t| t.set(Some(i)));
                    let r = std::panic::catch_unwind(std::panic::AssertUnwindSafe(|| {
                        let g = lock_state();
                        drop(wait_turn(g, i));
                        b();
                    }));
                    TID.with(|t| t.set(None));
                    let mut g = lock_state();
                    let s = g.as_mut().unwrap();
                    s.threads[i] = St::Finished;
                    // forget anything this thread still held in the model
                    let hs = std::mem::take(&mut s.held[i]);
                    for a in hs {
                        if let Some(l) = s.locks.get_mut(&a) {
                            if l.writer == Some(i) {
                                l.writer = None;
                            }
                            l.readers.retain(|&t| t != i);
                        }
                        for t in s.threads.iter_mut() {
                            if let St::Blocked(b, _) = *t {
                                if b == a {
                                    *t = St::Runnable;
                                }
                            }
                        }
                    }
                    s.ev(i, Op::Finish, 0, Mode::Shared);
                    if !s.aborted {
                        s.pick_next(false, i);
                    }
                    drop(g);
                    CV.notify_all();
                    match r {
                        Ok(()) => None,
                        Err(p) => {
                            if p.is::<Abort>() {
                                None
                            } else {
                                Some(panic_msg(&p))
                            }
                        }
                    }
                })
                .expect("spawn")
        })
        .collect();
    let mut panics = Vec::new();
    for h in handles {
        panics.push(h.join().unwrap_or(Some("<join failed>".to_string())));
    }
    let s = lock_state().take().unwrap();
    Report {
        outcome: s.outcome.unwrap_or(Outcome::Completed),
        steps: s.steps,
        switches: s.switches,
        preemptions: s.preemptions,
        preemptions_holding: s.preemptions_holding,
        trace: s.trace,
        choices: s.choices,
        lock_order_edges: s.edges.into_iter().collect(),
        panics,
    }
}

/// Single-thread mode (C20): register the *calling* thread as thread 0 of a one-thread
/// schedule, run `f`, and report.  Acquiring a lock that the same thread already holds in a
/// conflicting mode (e.g. a guard kept alive inside a suspended future) is an immediate
/// deadlock verdict instead of a hang.
pub fn run_inline<F: FnOnce()>(f: F, opts: Opts) -> Report {
    STEP.store(0, Ordering::SeqCst);
    *lock_state() = Some(State {
        aborted: false,
        current: 0,
        threads: vec![St::Runnable],
        held: vec![Vec::new()],
        locks: HashMap::new(),
        decisions: Vec::new(),
        pos: 0,
        theta: 255,
        excl_only: false,
        opts,
        steps: 0,
        switches: 0,
        preemptions: 0,
        preemptions_holding: 0,
        outcome: None,
        trace: Vec::new(),
        choices: Vec::new(),
        edges: BTreeSet::new(),
    });
    TID.with(|t| t.set(Some(0)));
    let r = std::panic::catch_unwind(std::panic::AssertUnwindSafe(f));
    TID.with(|t| t.set(None));
    let s = lock_state().take().unwrap();
    let panic = match r {
        Ok(()) => None,
        Err(p) => {
            if p.is::<Abort>() {
                None
            } else {
                Some(panic_msg(&p))
            }
        }
    };
    Report {
        outcome: s.outcome.unwrap_or(Outcome::Completed),
        steps: s.steps,
        switches: 0,
        preemptions: 0,
        preemptions_holding: 0,
        trace: s.trace,
        choices: s.choices,
        lock_order_edges: s.edges.into_iter().collect(),
        panics: vec![panic],
    }
}
