//! Host crate for a generated program corpus (C19 program tier).  Not built by default:
//! `VGEN19_SRC=<path to generated gen.rs> cargo build -p vgen19` compiles the generated
//! decorated functions with the real macros.
#![allow(unused_imports, unused_variables, unused_parens, unused_mut, non_snake_case, clippy::all)]
include!(env!("VGEN19_SRC"));
