fn main() {
    vharness::macro_l2::set_corpus(vharness::macro_l2::Corpus { funcs: vgen19::FUNCS, call: vgen19::call, call_async: vgen19::call_async });
    vharness::cli::main();
}
