//! Run-time support shared by the macro corpus, generated programs and the harness:
//! virtual clock, argument values and their canonical (Debug-independent) encoding,
//! function descriptors, and the thread-local tables through which the harness controls
//! and observes the bodies / predicates of decorated functions.

pub mod clock;

use std::cell::{Cell, RefCell};
use std::future::Future;
use std::pin::Pin;
use std::sync::atomic::{AtomicBool, AtomicU64, Ordering};
use std::task::{Context, Poll};

// ---------------------------------------------------------------------------------------
// Types and values
// ---------------------------------------------------------------------------------------

#[derive(Clone, Copy, Debug, PartialEq, Eq)]
pub enum Ty {
    U8,
    U16,
    U32,
    U64,
    U128,
    Usize,
    I8,
    I16,
    I32,
    I64,
    I128,
    Isize,
    F32,
    F64,
    Bool,
    Char,
    String,
    StrRef,
    Tup(&'static [Ty]),
    Opt(&'static Ty),
    Vec(&'static Ty),
    Slice(&'static Ty),
    UStruct,
    UEnum,
    /// `UserP { x: u32, y: u16 }` (Copy; values travel as `ArgVal::Tup([U, U])`)
    UPoint,
    /// `UserW(u8)` (Copy; values travel as `ArgVal::Tup([U])`)
    UWrap,
}

#[derive(Clone, Debug, PartialEq, Eq, Hash)]
pub enum ArgVal {
    /// unsigned integers of any width
    U(u128),
    /// signed integers of any width
    I(i128),
    /// f32 by bit pattern
    F32(u32),
    /// f64 by bit pattern
    F64(u64),
    Bool(bool),
    Char(char),
    Str(String),
    Tup(Vec<ArgVal>),
    Opt(Option<Box<ArgVal>>),
    Seq(Vec<ArgVal>),
    /// user struct { id, name }
    UStruct(u32, String),
    /// user enum: variant 0 = A, 1 = B(u8), 2 = C { x: i16, s: String }
    UEnum(u8, i64, String),
}

impl ArgVal {
    pub fn as_u(&self) -> u128 {
        match self {
            ArgVal::U(v) => *v,
            _ => panic!("ArgVal: expected unsigned, got {:?}", self),
        }
    }
    pub fn as_i(&self) -> i128 {
        match self {
            ArgVal::I(v) => *v,
            _ => panic!("ArgVal: expected signed, got {:?}", self),
        }
    }
    pub fn as_f32(&self) -> f32 {
        match self {
            ArgVal::F32(b) => f32::from_bits(*b),
            _ => panic!("ArgVal: expected f32, got {:?}", self),
        }
    }
    pub fn as_f64(&self) -> f64 {
        match self {
            ArgVal::F64(b) => f64::from_bits(*b),
            _ => panic!("ArgVal: expected f64, got {:?}", self),
        }
    }
    pub fn as_bool(&self) -> bool {
        match self {
            ArgVal::Bool(b) => *b,
            _ => panic!("ArgVal: expected bool, got {:?}", self),
        }
    }
    pub fn as_char(&self) -> char {
        match self {
            ArgVal::Char(c) => *c,
            _ => panic!("ArgVal: expected char, got {:?}", self),
        }
    }
    pub fn as_str(&self) -> &str {
        match self {
            ArgVal::Str(s) => s.as_str(),
            _ => panic!("ArgVal: expected string, got {:?}", self),
        }
    }
    pub fn as_tup(&self) -> &[ArgVal] {
        match self {
            ArgVal::Tup(v) => v.as_slice(),
            _ => panic!("ArgVal: expected tuple, got {:?}", self),
        }
    }
    pub fn as_opt(&self) -> Option<&ArgVal> {
        match self {
            ArgVal::Opt(o) => o.as_deref(),
            _ => panic!("ArgVal: expected option, got {:?}", self),
        }
    }
    pub fn as_seq(&self) -> &[ArgVal] {
        match self {
            ArgVal::Seq(v) => v.as_slice(),
            _ => panic!("ArgVal: expected sequence, got {:?}", self),
        }
    }
    pub fn as_ustruct(&self) -> (u32, &str) {
        match self {
            ArgVal::UStruct(a, b) => (*a, b.as_str()),
            _ => panic!("ArgVal: expected user struct, got {:?}", self),
        }
    }
    pub fn as_uenum(&self) -> (u8, i64, &str) {
        match self {
            ArgVal::UEnum(v, x, s) => (*v, *x, s.as_str()),
            _ => panic!("ArgVal: expected user enum, got {:?}", self),
        }
    }

    /// Canonical encoding of a value of type `ty`; must agree with the typed `Enc` impls.
    pub fn enc(&self, ty: &Ty, out: &mut Vec<u8>) {
        match ty {
            Ty::U8 => (self.as_u() as u8).enc(out),
            Ty::U16 => (self.as_u() as u16).enc(out),
            Ty::U32 => (self.as_u() as u32).enc(out),
            Ty::U64 => (self.as_u() as u64).enc(out),
            Ty::U128 => self.as_u().enc(out),
            Ty::Usize => (self.as_u() as usize).enc(out),
            Ty::I8 => (self.as_i() as i8).enc(out),
            Ty::I16 => (self.as_i() as i16).enc(out),
            Ty::I32 => (self.as_i() as i32).enc(out),
            Ty::I64 => (self.as_i() as i64).enc(out),
            Ty::I128 => self.as_i().enc(out),
            Ty::Isize => (self.as_i() as isize).enc(out),
            Ty::F32 => self.as_f32().enc(out),
            Ty::F64 => self.as_f64().enc(out),
            Ty::Bool => self.as_bool().enc(out),
            Ty::Char => self.as_char().enc(out),
            Ty::String | Ty::StrRef => self.as_str().enc(out),
            Ty::Tup(ts) => {
                let vs = self.as_tup();
                assert_eq!(vs.len(), ts.len());
                out.push(b'T');
                for (v, t) in vs.iter().zip(ts.iter()) {
                    v.enc(t, out);
                }
            }
            Ty::Opt(t) => match self.as_opt() {
                None => out.push(b'N'),
                Some(v) => {
                    out.push(b'S');
                    v.enc(t, out);
                }
            },
            Ty::Vec(t) | Ty::Slice(t) => {
                let vs = self.as_seq();
                out.push(b'L');
                out.extend_from_slice(&(vs.len() as u32).to_le_bytes());
                for v in vs {
                    v.enc(t, out);
                }
            }
            Ty::UStruct => {
                let (a, b) = self.as_ustruct();
                out.push(b'R');
                a.enc(out);
                b.enc(out);
            }
            Ty::UPoint => {
                let t = self.as_tup();
                out.push(b'P');
                (t[0].as_u() as u32).enc(out);
                (t[1].as_u() as u16).enc(out);
            }
            Ty::UWrap => {
                let t = self.as_tup();
                out.push(b'W');
                (t[0].as_u() as u8).enc(out);
            }
            Ty::UEnum => {
                let (v, x, s) = self.as_uenum();
                out.push(b'E');
                out.push(v);
                match v {
                    0 => {}
                    1 => (x as u8).enc(out),
                    _ => {
                        (x as i16).enc(out);
                        s.enc(out);
                    }
                }
            }
        }
    }
}

/// Canonical, Debug-independent encoding used by twin bodies.
pub trait Enc {
    fn enc(&self, out: &mut Vec<u8>);
}

macro_rules! enc_int {
    ($($t:ty => $tag:expr),*) => {$(
        impl Enc for $t {
            fn enc(&self, out: &mut Vec<u8>) {
                out.push($tag);
                out.extend_from_slice(&(*self as i128 as u128).to_le_bytes()[..std::mem::size_of::<$t>().max(1)]);
            }
        }
    )*};
}
enc_int!(u8 => b'a', u16 => b'b', u32 => b'c', u64 => b'd', usize => b'e', i8 => b'f', i16 => b'g', i32 => b'h', i64 => b'i', isize => b'j', i128 => b'l');

impl Enc for u128 {
    fn enc(&self, out: &mut Vec<u8>) {
        out.push(b'k');
        out.extend_from_slice(&self.to_le_bytes());
    }
}
impl Enc for f32 {
    fn enc(&self, out: &mut Vec<u8>) {
        out.push(b'm');
        out.extend_from_slice(&self.to_bits().to_le_bytes());
    }
}
impl Enc for f64 {
    fn enc(&self, out: &mut Vec<u8>) {
        out.push(b'n');
        out.extend_from_slice(&self.to_bits().to_le_bytes());
    }
}
impl Enc for bool {
    fn enc(&self, out: &mut Vec<u8>) {
        out.push(b'o');
        out.push(*self as u8);
    }
}
impl Enc for char {
    fn enc(&self, out: &mut Vec<u8>) {
        out.push(b'p');
        out.extend_from_slice(&(*self as u32).to_le_bytes());
    }
}
impl Enc for str {
    fn enc(&self, out: &mut Vec<u8>) {
        out.push(b's');
        out.extend_from_slice(&(self.len() as u32).to_le_bytes());
        out.extend_from_slice(self.as_bytes());
    }
}
impl Enc for String {
    fn enc(&self, out: &mut Vec<u8>) {
        self.as_str().enc(out)
    }
}
impl<T: Enc + ?Sized> Enc for &T {
    fn enc(&self, out: &mut Vec<u8>) {
        (**self).enc(out)
    }
}
impl<T: Enc + ?Sized> Enc for &mut T {
    fn enc(&self, out: &mut Vec<u8>) {
        (**self).enc(out)
    }
}
impl<T: Enc> Enc for Option<T> {
    fn enc(&self, out: &mut Vec<u8>) {
        match self {
            None => out.push(b'N'),
            Some(v) => {
                out.push(b'S');
                v.enc(out);
            }
        }
    }
}
impl<T: Enc> Enc for [T] {
    fn enc(&self, out: &mut Vec<u8>) {
        out.push(b'L');
        out.extend_from_slice(&(self.len() as u32).to_le_bytes());
        for v in self {
            v.enc(out);
        }
    }
}
impl<T: Enc> Enc for Vec<T> {
    fn enc(&self, out: &mut Vec<u8>) {
        self.as_slice().enc(out)
    }
}
macro_rules! enc_tuple {
    ($($n:ident),+) => {
        impl<$($n: Enc),+> Enc for ($($n,)+) {
            #[allow(non_snake_case)]
            fn enc(&self, out: &mut Vec<u8>) {
                let ($($n,)+) = self;
                out.push(b'T');
                $($n.enc(out);)+
            }
        }
    };
}
enc_tuple!(A);
enc_tuple!(A, B);
enc_tuple!(A, B, C);
enc_tuple!(A, B, C, D);
enc_tuple!(A, B, C, D, E);

// ---------------------------------------------------------------------------------------
// Function descriptors
// ---------------------------------------------------------------------------------------

#[derive(Clone, Copy, Debug, PartialEq, Eq, Hash)]
pub enum Flavour {
    Global,
    Thread,
    Async,
}

#[derive(Clone, Copy, Debug, PartialEq, Eq, Hash)]
pub enum Policy {
    Fifo,
    Lru,
    Lfu,
    Arc,
    Random,
    Tlru,
}

impl Policy {
    pub const ALL: [Policy; 6] = [Policy::Fifo, Policy::Lru, Policy::Lfu, Policy::Arc, Policy::Random, Policy::Tlru];
    pub fn name(&self) -> &'static str {
        match self {
            Policy::Fifo => "fifo",
            Policy::Lru => "lru",
            Policy::Lfu => "lfu",
            Policy::Arc => "arc",
            Policy::Random => "random",
            Policy::Tlru => "tlru",
        }
    }
}

#[derive(Clone, Copy, Debug, PartialEq, Eq)]
pub enum RetKind {
    Plain,
    /// `Result<String, String>`
    ResultShort,
    /// `std::result::Result<String, String>`
    ResultStd,
    /// `Result<String, std::string::String>` (a path inside the type arguments)
    ResultPathArgs,
    /// `Result<String>` through a one-parameter alias `type Result<T> = std::result::Result<T, String>`
    ResultAlias,
}

#[derive(Clone, Copy, Debug, PartialEq, Eq)]
pub enum Receiver {
    None,
    Ref,
    RefMut,
    Value,
}

#[derive(Clone, Debug)]
pub struct FnDesc {
    pub id: u32,
    pub fn_name: &'static str,
    /// `name = ".."` attribute if present, else the function name
    pub cache_name: &'static str,
    pub has_name_attr: bool,
    pub family: &'static str,
    pub flavour: Flavour,
    /// None: attribute omitted (default FIFO)
    pub policy: Option<Policy>,
    pub limit: Option<usize>,
    pub ttl: Option<u64>,
    pub max_memory: Option<usize>,
    pub frequency_weight: Option<f64>,
    pub tags: &'static [&'static str],
    pub events: &'static [&'static str],
    pub deps: &'static [&'static str],
    pub invalidate_on: bool,
    pub cache_if: bool,
    pub ret: RetKind,
    pub receiver: Receiver,
    pub args: &'static [Ty],
    /// number of gates the (async) body awaits
    pub gates: u8,
    /// 0: no padding; 1: the body pads its value to a length derived from the arguments
    /// (24..178, memory rows); n > 1: pads to exactly n bytes
    pub pad: u32,
    /// the attribute text as written (for reports)
    pub attr_text: &'static str,
}

impl FnDesc {
    pub fn effective_policy(&self) -> Policy {
        self.policy.unwrap_or(Policy::Fifo)
    }
    pub fn is_result(&self) -> bool {
        self.ret != RetKind::Plain
    }
    pub fn declares_metadata(&self) -> bool {
        !self.tags.is_empty() || !self.events.is_empty() || !self.deps.is_empty()
    }
}

#[derive(Clone, Debug, PartialEq, Eq)]
pub enum Ret {
    Str(String),
    Res(Result<String, String>),
}

impl Ret {
    pub fn inner(&self) -> &str {
        match self {
            Ret::Str(s) => s,
            Ret::Res(Ok(s)) => s,
            Ret::Res(Err(s)) => s,
        }
    }
    pub fn is_err(&self) -> bool {
        matches!(self, Ret::Res(Err(_)))
    }
}

pub type AsyncRet<'a> = Pin<Box<dyn Future<Output = Ret> + 'a>>;

// ---------------------------------------------------------------------------------------
// Twin bodies
// ---------------------------------------------------------------------------------------

thread_local! {
    static EXEC: Cell<u32> = const { Cell::new(0) };
    static EXEC_LOG: RefCell<Vec<u32>> = const { RefCell::new(Vec::new()) };
    static NEXT_OK: Cell<bool> = const { Cell::new(true) };
    static NEXT_VER: Cell<u32> = const { Cell::new(0) };
    static CIF_VERDICT: Cell<bool> = const { Cell::new(true) };
    static INV_VERDICT: Cell<bool> = const { Cell::new(false) };
    static PRED_LOG: RefCell<Vec<PredCall>> = const { RefCell::new(Vec::new()) };
    static SCRATCH: RefCell<Vec<u8>> = const { RefCell::new(Vec::new()) };
}

pub static TOTAL_EXEC: AtomicU64 = AtomicU64::new(0);

#[derive(Clone, Debug, PartialEq, Eq)]
pub struct PredCall {
    /// 'c' = cache_if, 'i' = invalidate_on
    pub kind: char,
    pub key: String,
    pub value: Ret,
}

fn hex(bytes: &[u8], out: &mut String) {
    const H: &[u8; 16] = b"0123456789abcdef";
    for b in bytes {
        out.push(H[(b >> 4) as usize] as char);
        out.push(H[(b & 15) as usize] as char);
    }
}

/// Length to which memory-row bodies pad their value: derived from the first encoded byte
/// sum so the harness can steer value sizes through the arguments.
pub fn pad_len(enc: &[u8], version: u32) -> usize {
    // depends on the version stamp too: a refreshed value of the same key may have another size
    let s: u32 = enc.iter().map(|b| *b as u32).sum::<u32>().wrapping_add(version.wrapping_mul(5));
    24 + (s % 8) as usize * 22
}

/// The pure twin value: encodes function id, version stamp and arguments injectively.
pub fn twin_value_enc(fn_id: u32, version: u32, enc: &[u8], pad: u32) -> String {
    let mut s = String::with_capacity(16 + enc.len() * 2);
    s.push('F');
    s.push_str(&fn_id.to_string());
    s.push('v');
    s.push_str(&version.to_string());
    s.push(':');
    hex(enc, &mut s);
    s.push(';');
    if pad > 0 {
        let target = if pad == 1 { pad_len(enc, version) } else { pad as usize };
        if s.len() < target {
            s.reserve(target - s.len());
            while s.len() < target {
                s.push('.');
            }
        }
    }
    s
}

/// Encode a list of typed arguments (used by generated bodies).
pub fn enc_args(parts: &[&dyn Enc]) -> Vec<u8> {
    let mut out = Vec::new();
    for p in parts {
        p.enc(&mut out);
        out.push(0xfe);
    }
    out
}

/// Encode a list of generic argument values (used by the harness for the expected value).
pub fn enc_argvals(recv: Option<&ArgVal>, args: &[ArgVal], tys: &[Ty]) -> Vec<u8> {
    let mut out = Vec::new();
    if let Some(r) = recv {
        r.enc(&Ty::UStruct, &mut out);
        out.push(0xfe);
    }
    for (a, t) in args.iter().zip(tys.iter()) {
        a.enc(t, &mut out);
        out.push(0xfe);
    }
    out
}

/// Body of a plain-return decorated function: counts the execution and returns the twin value.
thread_local! {
    static NESTED: RefCell<Option<Box<dyn FnOnce()>>> = const { RefCell::new(None) };
}

/// Install a one-shot action that the next body / `cache_if` / `invalidate_on` function
/// running on this thread performs first (user code calling back into the library).
pub fn set_nested(f: Box<dyn FnOnce()>) {
    NESTED.with(|n| *n.borrow_mut() = Some(f));
}

pub fn clear_nested() -> bool {
    NESTED.with(|n| n.borrow_mut().take()).is_some()
}

fn run_nested() {
    let f = NESTED.with(|n| n.borrow_mut().take());
    if let Some(f) = f {
        // the nested action scripts its own calls: keep the outer call's script
        let saved = (EXEC.with(|e| e.get()), NEXT_OK.with(|o| o.get()), NEXT_VER.with(|v| v.get()), CIF_VERDICT.with(|c| c.get()), INV_VERDICT.with(|c| c.get()));
        f();
        EXEC.with(|e| e.set(saved.0));
        NEXT_OK.with(|o| o.set(saved.1));
        NEXT_VER.with(|v| v.set(saved.2));
        CIF_VERDICT.with(|c| c.set(saved.3));
        INV_VERDICT.with(|c| c.set(saved.4));
    }
}

/// Always true, opaque to the compiler (bodies with an early `return` on the path every call takes).
pub fn yes() -> bool {
    std::hint::black_box(true)
}

pub fn body_plain(fn_id: u32, pad: u32, parts: &[&dyn Enc]) -> String {
    run_nested();
    note_exec(fn_id);
    let enc = enc_args(parts);
    twin_value_enc(fn_id, NEXT_VER.with(|v| v.get()), &enc, pad)
}

/// Body of a Result-returning decorated function: outcome chosen by the harness.
pub fn body_result(fn_id: u32, pad: u32, parts: &[&dyn Enc]) -> Result<String, String> {
    run_nested();
    note_exec(fn_id);
    let enc = enc_args(parts);
    let v = twin_value_enc(fn_id, NEXT_VER.with(|v| v.get()), &enc, pad);
    if NEXT_OK.with(|o| o.get()) {
        Ok(v)
    } else {
        Err(v)
    }
}

fn note_exec(fn_id: u32) {
    EXEC.with(|e| e.set(e.get() + 1));
    EXEC_LOG.with(|l| l.borrow_mut().push(fn_id));
    TOTAL_EXEC.fetch_add(1, Ordering::Relaxed);
    vsched::yield_point();
}

/// Reset the per-thread observation tables before a call.
pub fn begin_call(ok: bool, version: u32, cif: bool, inv: bool) {
    EXEC.with(|e| e.set(0));
    EXEC_LOG.with(|l| l.borrow_mut().clear());
    NEXT_OK.with(|o| o.set(ok));
    NEXT_VER.with(|v| v.set(version));
    CIF_VERDICT.with(|c| c.set(cif));
    INV_VERDICT.with(|c| c.set(inv));
    PRED_LOG.with(|l| l.borrow_mut().clear());
}

pub fn executions() -> u32 {
    EXEC.with(|e| e.get())
}

pub fn exec_log() -> Vec<u32> {
    EXEC_LOG.with(|l| l.borrow().clone())
}

pub fn pred_log() -> Vec<PredCall> {
    PRED_LOG.with(|l| l.borrow().clone())
}

pub fn current_version() -> u32 {
    NEXT_VER.with(|v| v.get())
}

pub fn current_ok() -> bool {
    NEXT_OK.with(|v| v.get())
}

// predicates referenced by `cache_if = ...` / `invalidate_on = ...`
pub fn cif_str(key: &String, v: &String) -> bool {
    run_nested();
    PRED_LOG.with(|l| l.borrow_mut().push(PredCall { kind: 'c', key: key.clone(), value: Ret::Str(v.clone()) }));
    CIF_VERDICT.with(|c| c.get())
}
pub fn cif_res(key: &String, v: &Result<String, String>) -> bool {
    run_nested();
    PRED_LOG.with(|l| l.borrow_mut().push(PredCall { kind: 'c', key: key.clone(), value: Ret::Res(v.clone()) }));
    CIF_VERDICT.with(|c| c.get())
}
pub fn inv_str(key: &String, v: &String) -> bool {
    run_nested();
    PRED_LOG.with(|l| l.borrow_mut().push(PredCall { kind: 'i', key: key.clone(), value: Ret::Str(v.clone()) }));
    INV_VERDICT.with(|c| c.get())
}
pub fn inv_res(key: &String, v: &Result<String, String>) -> bool {
    run_nested();
    PRED_LOG.with(|l| l.borrow_mut().push(PredCall { kind: 'i', key: key.clone(), value: Ret::Res(v.clone()) }));
    INV_VERDICT.with(|c| c.get())
}

pub fn scratch_clear() {
    SCRATCH.with(|s| s.borrow_mut().clear());
}

// ---------------------------------------------------------------------------------------
// Gates (C20): futures that stay pending until the harness opens them
// ---------------------------------------------------------------------------------------

static GATE_OPEN: [AtomicBool; 4] = [AtomicBool::new(true), AtomicBool::new(true), AtomicBool::new(true), AtomicBool::new(true)];
pub static GATE_POLLS: AtomicU64 = AtomicU64::new(0);

pub fn set_gate(i: usize, open: bool) {
    GATE_OPEN[i].store(open, Ordering::SeqCst);
}

pub fn open_all_gates() {
    for g in GATE_OPEN.iter() {
        g.store(true, Ordering::SeqCst);
    }
}

pub struct Gate(pub usize);

impl Future for Gate {
    type Output = ();
    fn poll(self: Pin<&mut Self>, _cx: &mut Context<'_>) -> Poll<()> {
        GATE_POLLS.fetch_add(1, Ordering::Relaxed);
        if GATE_OPEN[self.0].load(Ordering::SeqCst) {
            Poll::Ready(())
        } else {
            Poll::Pending
        }
    }
}

pub fn gate(i: usize) -> Gate {
    Gate(i)
}

// ---------------------------------------------------------------------------------------
// Minimal executor
// ---------------------------------------------------------------------------------------

fn noop_raw_waker() -> std::task::RawWaker {
    fn no_op(_: *const ()) {}
    fn clone(_: *const ()) -> std::task::RawWaker {
        noop_raw_waker()
    }
    static VTABLE: std::task::RawWakerVTable = std::task::RawWakerVTable::new(clone, no_op, no_op, no_op);
    std::task::RawWaker::new(std::ptr::null(), &VTABLE)
}

pub fn noop_waker() -> std::task::Waker {
    unsafe { std::task::Waker::from_raw(noop_raw_waker()) }
}

/// Poll a future once.
pub fn poll_once<F: Future + ?Sized>(f: Pin<&mut F>) -> Poll<F::Output> {
    let w = noop_waker();
    let mut cx = Context::from_waker(&w);
    f.poll(&mut cx)
}

/// Drive a future that never stays pending (gates open) to completion.
pub fn block_on<F: Future>(f: F) -> F::Output {
    let mut f = Box::pin(f);
    let mut n = 0u32;
    loop {
        if let Poll::Ready(v) = poll_once(f.as_mut()) {
            return v;
        }
        n += 1;
        if n > 10_000 {
            panic!("vrt::block_on: future still pending after 10000 polls (closed gate?)");
        }
    }
}
