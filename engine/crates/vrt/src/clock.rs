//! Virtual clock (engine E1).  The harness binary defines the C symbol `clock_gettime`;
//! std is linked statically into the executable, so `Instant::now()` and
//! `SystemTime::now()` of all code in the process resolve to it.  Unfrozen it forwards to
//! the raw syscall; frozen it returns base + offset for CLOCK_MONOTONIC / CLOCK_REALTIME.

use std::sync::atomic::{AtomicBool, AtomicI64, Ordering};

static FROZEN: AtomicBool = AtomicBool::new(false);
static OFFSET_NS: AtomicI64 = AtomicI64::new(0);
static BASE_MONO_NS: AtomicI64 = AtomicI64::new(0);
static BASE_REAL_NS: AtomicI64 = AtomicI64::new(0);

unsafe fn real(clk: libc::clockid_t, ts: *mut libc::timespec) -> libc::c_int {
    libc::syscall(libc::SYS_clock_gettime, clk as libc::c_long, ts) as libc::c_int
}

#[no_mangle]
pub unsafe extern "C" fn clock_gettime(clk: libc::clockid_t, ts: *mut libc::timespec) -> libc::c_int {
    if FROZEN.load(Ordering::SeqCst) && (clk == libc::CLOCK_MONOTONIC || clk == libc::CLOCK_REALTIME) {
        let base = if clk == libc::CLOCK_MONOTONIC {
            BASE_MONO_NS.load(Ordering::SeqCst)
        } else {
            BASE_REAL_NS.load(Ordering::SeqCst)
        };
        let t = base + OFFSET_NS.load(Ordering::SeqCst);
        (*ts).tv_sec = (t / 1_000_000_000) as libc::time_t;
        (*ts).tv_nsec = (t % 1_000_000_000) as libc::c_long;
        return 0;
    }
    real(clk, ts)
}

pub const SEC: i64 = 1_000_000_000;

/// Fixed virtual epoch: monotonic starts at 1000 s, realtime at a fixed whole second.
const MONO_BASE: i64 = 1_000 * SEC;
const REAL_BASE: i64 = 1_700_000_000 * SEC;

/// Freeze (or re-freeze) the clock: offset 0, realtime = whole second + `phase_ns`.
pub fn freeze(phase_ns: i64) {
    BASE_MONO_NS.store(MONO_BASE, Ordering::SeqCst);
    BASE_REAL_NS.store(REAL_BASE + phase_ns.rem_euclid(SEC), Ordering::SeqCst);
    OFFSET_NS.store(0, Ordering::SeqCst);
    FROZEN.store(true, Ordering::SeqCst);
}

pub fn unfreeze() {
    FROZEN.store(false, Ordering::SeqCst);
}

pub fn is_frozen() -> bool {
    FROZEN.load(Ordering::SeqCst)
}

pub fn advance_ns(ns: i64) {
    OFFSET_NS.fetch_add(ns, Ordering::SeqCst);
}

/// Virtual nanoseconds elapsed since `freeze`.
pub fn now_ns() -> i64 {
    OFFSET_NS.load(Ordering::SeqCst)
}

/// Real wall clock in seconds (for reporting `wall_s` only; never used in an oracle).
pub fn real_secs() -> f64 {
    unsafe {
        let mut ts: libc::timespec = std::mem::zeroed();
        real(libc::CLOCK_MONOTONIC, &mut ts);
        ts.tv_sec as f64 + ts.tv_nsec as f64 * 1e-9
    }
}

/// Real sleep that does not depend on the (possibly frozen) clock.
pub fn real_sleep_ms(ms: u64) {
    unsafe {
        let ts = libc::timespec { tv_sec: (ms / 1000) as libc::time_t, tv_nsec: ((ms % 1000) * 1_000_000) as libc::c_long };
        libc::nanosleep(&ts, std::ptr::null_mut());
    }
}
