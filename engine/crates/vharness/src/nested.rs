//! C17, re-entrant part: user code that the library runs (bodies, `cache_if` /
//! `invalidate_on` functions, `invalidate_with` / `invalidate_all_with` predicates) calls
//! back into the library - cached functions of *other* caches, conditional and named
//! invalidation of other caches, statistics.  One thread, registered with the scheduler so
//! that acquiring a lock the thread already holds in a conflicting mode is a deterministic
//! "waits forever" verdict.  Every generated nesting is acyclic: an action nested inside a
//! predicate never touches a cache whose predicate is running further up (the library runs
//! predicates under that cache's own locks, so that would be the caller waiting on itself by
//! construction, on any implementation).

use crate::infra::{hash_of, CaseOut, Dec, Tier, Violation};
use crate::keys::key_of;
use crate::l2_checks::key_args;
use crate::macro_l2::{static_corpus, CallScript, Corpus};
use serde::Serialize;
use serde_json::{json, Value};
use std::collections::BTreeSet;
use std::sync::atomic::{AtomicBool, Ordering};
use std::sync::Arc;
use vrt::{Flavour, FnDesc};

#[derive(Clone, Debug, Hash, PartialEq, Serialize)]
pub enum NOp {
    /// call function f with key index k; verdicts of its predicates as scripted
    Call { f: u8, k: u8, cif: bool, inv: bool },
    InvWith { f: u8, mask: u16 },
    /// `invalidate_all_with`; the nested action runs when the predicate is first asked about cache `on`
    InvAll { mask: u16, on: u8 },
    ByName { f: u8 },
    StatsGet { f: u8 },
    StatsReset { f: u8 },
    StatsList,
}

#[derive(Clone, Debug, Hash, PartialEq, Serialize)]
pub struct Node {
    pub op: NOp,
    pub inner: Option<Box<Node>>,
}

#[derive(Clone, Debug, Hash, PartialEq, Serialize)]
pub struct NestedCase {
    pub fns: Vec<u32>,
    pub prefix: Vec<(u8, u8)>,
    pub program: Vec<Node>,
}

fn candidates() -> &'static Vec<u32> {
    use std::sync::OnceLock;
    static C: OnceLock<Vec<u32>> = OnceLock::new();
    C.get_or_init(|| {
        static_corpus()
            .funcs
            .iter()
            .filter(|d| matches!(d.family, "conc" | "concu" | "cif" | "inv" | "reg") && d.gates == 0 && d.receiver == vrt::Receiver::None && d.args.len() == 2 && d.ttl.is_none())
            .map(|d| d.id)
            .collect()
    })
}

fn gen_node(d: &mut Dec, descs: &[&'static FnDesc], held: &BTreeSet<u8>, depth: usize) -> Option<Node> {
    // functions whose locks are not held further up
    let free: Vec<u8> = (0..descs.len() as u8).filter(|i| !held.contains(i)).collect();
    if free.is_empty() {
        return None;
    }
    let shared_free: Vec<u8> = free.iter().copied().filter(|i| descs[*i as usize].flavour != Flavour::Thread).collect();
    let pick = |d: &mut Dec, v: &[u8]| v[d.choose(v.len())];
    let under_predicate = !held.is_empty();
    let kind = d.weighted(&[6, if shared_free.is_empty() { 0 } else { 5 }, if under_predicate || shared_free.is_empty() { 0 } else { 2 }, if shared_free.is_empty() { 0 } else { 2 }, 1, 1, 1]);
    let op = match kind {
        0 => NOp::Call { f: pick(d, &free), k: d.choose(4) as u8, cif: !d.chance(1, 3), inv: d.chance(1, 2) },
        1 => NOp::InvWith { f: pick(d, &shared_free), mask: d.byte() as u16 | 1 },
        2 => NOp::InvAll { mask: d.byte() as u16 | 1, on: pick(d, &shared_free) },
        3 => NOp::ByName { f: pick(d, &shared_free) },
        4 => NOp::StatsGet { f: pick(d, &free) },
        5 => NOp::StatsReset { f: pick(d, &free) },
        _ => NOp::StatsList,
    };
    let mut inner = None;
    if depth < 2 && d.chance(if depth == 0 { 4 } else { 1 }, 5) {
        let mut h2 = held.clone();
        match &op {
            NOp::InvWith { f, .. } => {
                h2.insert(*f);
            }
            NOp::InvAll { on, .. } => {
                h2.insert(*on);
            }
            _ => {}
        }
        if matches!(op, NOp::Call { .. } | NOp::InvWith { .. } | NOp::InvAll { .. }) {
            inner = gen_node(d, descs, &h2, depth + 1).map(Box::new);
        }
    }
    Some(Node { op, inner })
}

pub fn decode(bytes: &[u8]) -> NestedCase {
    let mut d = Dec::new(bytes);
    let corpus = static_corpus();
    let cands = candidates();
    let nf = 2 + d.choose(3);
    let mut fns: Vec<u32> = Vec::new();
    for _ in 0..nf {
        let id = cands[d.choose16(cands.len())];
        // distinct caches only (a shared name would be one cache behind two functions)
        if !fns.contains(&id) && !fns.iter().any(|o| corpus.by_id(*o).cache_name == corpus.by_id(id).cache_name) {
            fns.push(id);
        }
    }
    let descs: Vec<&'static FnDesc> = fns.iter().map(|id| corpus.by_id(*id)).collect();
    // every cache holds entries so that predicates are consulted
    let mut prefix: Vec<(u8, u8)> = Vec::new();
    for f in 0..fns.len() as u8 {
        prefix.push((f, 0));
        prefix.push((f, 1));
    }
    let n = 1 + d.choose(4);
    let mut program = Vec::new();
    for _ in 0..n {
        if let Some(node) = gen_node(&mut d, &descs, &BTreeSet::new(), 0) {
            program.push(node);
        }
    }
    NestedCase { fns, prefix, program }
}

pub fn describe(bytes: &[u8], _t: Tier) -> Value {
    let c = decode(bytes);
    let corpus = static_corpus();
    let mut v = serde_json::to_value(&c).unwrap_or(Value::Null);
    v["functions"] = json!(c.fns.iter().map(|id| { let d = corpus.by_id(*id); json!({"fn": d.fn_name, "macro": if d.flavour == Flavour::Async { "cache_async" } else { "cache" }, "attrs": d.attr_text}) }).collect::<Vec<_>>());
    v
}

struct Ctx {
    corpus: Corpus,
    descs: Vec<&'static FnDesc>,
    depth_reached: std::sync::atomic::AtomicUsize,
    nested_under_predicate: AtomicBool,
}

fn exec(ctx: &Arc<Ctx>, node: &Node, depth: usize, under_predicate: bool) {
    ctx.depth_reached.fetch_max(depth, Ordering::SeqCst);
    if under_predicate {
        ctx.nested_under_predicate.store(true, Ordering::SeqCst);
    }
    let descs = &ctx.descs;
    let fd = |f: u8| descs[f as usize % descs.len()];
    let keyset = |d: &FnDesc, mask: u16| -> BTreeSet<String> { (0..8u8).filter(|i| mask & (1 << i) != 0).map(|i| key_of(d, None, &key_args(i))).collect() };
    match &node.op {
        NOp::Call { f, k, cif, inv } => {
            let d = fd(*f);
            if let Some(inner) = node.inner.clone() {
                let c2 = ctx.clone();
                vrt::set_nested(Box::new(move || exec(&c2, &inner, depth + 1, under_predicate)));
            }
            let _ = crate::macro_l2::do_call(&ctx.corpus, d, None, &key_args(*k), &CallScript { ok: true, cif: *cif, inv: *inv }, 7000 + depth as u32);
            vrt::clear_nested();
        }
        NOp::InvWith { f, mask } => {
            let d = fd(*f);
            let set = keyset(d, *mask);
            let first = AtomicBool::new(true);
            let inner = node.inner.clone();
            let c2 = ctx.clone();
            let _ = cachelito_core::invalidate_with(d.cache_name, move |k: &str| {
                if first.swap(false, Ordering::SeqCst) {
                    if let Some(inner) = &inner {
                        exec(&c2, inner, depth + 1, true);
                    }
                }
                set.contains(k)
            });
        }
        NOp::InvAll { mask, on } => {
            let sets: Vec<(String, BTreeSet<String>)> = descs.iter().filter(|d| d.flavour != Flavour::Thread).map(|d| (d.cache_name.to_string(), keyset(d, *mask))).collect();
            let trigger = fd(*on).cache_name.to_string();
            let first = AtomicBool::new(true);
            let inner = node.inner.clone();
            let c2 = ctx.clone();
            let _ = cachelito_core::invalidate_all_with(move |n: &str, k: &str| {
                if n == trigger && first.swap(false, Ordering::SeqCst) {
                    if let Some(inner) = &inner {
                        exec(&c2, inner, depth + 1, true);
                    }
                }
                sets.iter().any(|(name, s)| name == n && s.contains(k))
            });
        }
        NOp::ByName { f } => {
            let _ = cachelito_core::invalidate_cache(fd(*f).cache_name);
        }
        NOp::StatsGet { f } => {
            let _ = cachelito_core::stats_registry::get(fd(*f).cache_name);
        }
        NOp::StatsReset { f } => {
            let _ = cachelito_core::stats_registry::reset(fd(*f).cache_name);
        }
        NOp::StatsList => {
            let _ = cachelito_core::stats_registry::list();
        }
    }
}

pub fn run_case(bytes: &[u8], t: Tier) -> CaseOut {
    run_focus(bytes, t, false)
}

/// C16 variant: the same re-entrant programs; a panic (for instance a thread-local cache
/// re-borrowing its RefCell when a body calls another cached function) is the violation.
pub fn run_case_c16(bytes: &[u8], t: Tier) -> CaseOut {
    run_focus(bytes, t, true)
}

fn run_focus(bytes: &[u8], _t: Tier, panics: bool) -> CaseOut {
    let case = decode(bytes);
    let mut out = CaseOut { key: hash_of(&case), ..CaseOut::default() };
    let corpus = static_corpus();
    let descs: Vec<&'static FnDesc> = case.fns.iter().map(|id| corpus.by_id(*id)).collect();
    vrt::clock::freeze(0);
    crate::infra::install_panic_hook_once();
    fastrand::seed(out.key | 1);
    // first-use registration outside the registered region
    crate::sched_checks::warm_up(&corpus, &descs.iter().copied().filter(|d| d.flavour != Flavour::Thread).collect::<Vec<_>>());
    for d in descs.iter().filter(|d| d.flavour == Flavour::Thread) {
        let _ = crate::macro_l2::do_call(&corpus, d, None, &key_args(63), &CallScript::default(), 0);
    }
    let ctx = Arc::new(Ctx { corpus, descs: descs.clone(), depth_reached: std::sync::atomic::AtomicUsize::new(0), nested_under_predicate: AtomicBool::new(false) });
    let stage = std::cell::Cell::new(0usize);
    let rep = vsched::run_inline(
        || {
            for (f, k) in &case.prefix {
                let d = ctx.descs[*f as usize % ctx.descs.len()];
                let _ = crate::macro_l2::do_call(&ctx.corpus, d, None, &key_args(*k), &CallScript::default(), 1);
            }
            for (i, node) in case.program.iter().enumerate() {
                stage.set(i);
                exec(&ctx, node, 0, false);
            }
        },
        vsched::Opts { step_limit: 400_000, trace: false, explicit: false, cycle: false, excl_only: None },
    );
    vrt::clear_nested();
    let depth = ctx.depth_reached.load(Ordering::SeqCst);
    out.nontrivial = depth >= 1;
    if depth >= 1 {
        out.classes.push("nested_action_ran");
    }
    if depth >= 2 {
        out.classes.push("nested_twice");
    }
    if ctx.nested_under_predicate.load(Ordering::SeqCst) {
        out.classes.push("nested_inside_invalidation_predicate");
    }
    match rep.outcome {
        vsched::Outcome::Deadlock(_) if panics => out.aborted_foreign = true,
        vsched::Outcome::Deadlock(w) => {
            let node = &case.program[stage.get().min(case.program.len().saturating_sub(1))];
            out.violation = Some(Violation {
                signature: format!("C17:nested:{}", match node.op {
                    NOp::Call { .. } => "call",
                    NOp::InvWith { .. } => "invalidate_with",
                    NOp::InvAll { .. } => "invalidate_all_with",
                    _ => "other",
                }),
                clause: "nested-call-never-returns".into(),
                step: stage.get(),
                expected: "a call into the library made from a body, a cache_if / invalidate_on function or an invalidation predicate of another cache returns".into(),
                observed: format!("the thread waits for a lock it holds itself: {:?} (program step {}: {:?})", w, stage.get(), node),
            });
        }
        vsched::Outcome::StepLimit => out.aborted_foreign = true,
        vsched::Outcome::Completed => {
            if let Some(Some(msg)) = rep.panics.first() {
                if panics {
                    let node = &case.program[stage.get().min(case.program.len().saturating_sub(1))];
                    out.violation = Some(Violation {
                        signature: "C16:nested:panic".into(),
                        clause: "panic".into(),
                        step: stage.get(),
                        expected: "a call into the library made from a body, a cache_if / invalidate_on function or an invalidation predicate of another cache completes".into(),
                        observed: format!("panic: {} (program step {}: {:?})", msg.chars().take(200).collect::<String>(), stage.get(), node),
                    });
                } else {
                    // a panic is C16's business
                    out.aborted_foreign = true;
                    out.classes.push("aborted_by_panic");
                }
            }
        }
    }
    vrt::clock::unfreeze();
    out
}
