//! Layer-2 checks: byte-decoded histories over the static macro corpus.

use crate::infra::{hash_of, CaseOut, Dec, Tier, Violation};
use crate::macro_l2::{static_corpus, CallScript, L2Finding, MacroSim};
use crate::model::SEC;
use serde::Serialize;
use serde_json::{json, Value};
use std::collections::{BTreeMap, BTreeSet};
use vrt::{ArgVal, Flavour, FnDesc, Policy};

#[derive(Clone, Copy, Debug, PartialEq, Eq, Hash, Serialize)]
pub enum F2 {
    C01,
    C03,
    C04,
    C05,
    C06,
    C07,
    C08,
    C09,
    C10,
    C11,
    C12,
    C13,
    C15,
    C16,
    C19,
}

impl F2 {
    pub fn id(&self) -> &'static str {
        match self {
            F2::C01 => "C01",
            F2::C03 => "C03",
            F2::C04 => "C04",
            F2::C05 => "C05",
            F2::C06 => "C06",
            F2::C07 => "C07",
            F2::C08 => "C08",
            F2::C09 => "C09",
            F2::C10 => "C10",
            F2::C11 => "C11",
            F2::C12 => "C12",
            F2::C13 => "C13",
            F2::C15 => "C15",
            F2::C16 => "C16",
            F2::C19 => "C19",
        }
    }
}

#[derive(Clone, Debug, Hash, PartialEq, Serialize)]
pub enum MOp {
    Call { f: u8, k: u8, sc: CallScript },
    Advance { ns: i64 },
    /// invalidate_with on function f with a predicate matching the keys selected by mask
    /// (bit i = i-th stored key in sorted order; bit 15 = also a key that is not stored)
    InvWith { f: u8, mask: u16 },
    InvAllWith { masks: Vec<u16> },
    Group { kind: char, s: String },
    StatsReset { f: u8 },
}

#[derive(Clone, Debug, Hash, PartialEq, Serialize)]
pub struct MacroCase {
    pub fns: Vec<u32>,
    pub n_keys: u8,
    pub ops: Vec<MOp>,
}

/// Argument pool: keys share long prefixes and differ late, contain the separator, quotes
/// and backslashes (a lookup or store under a truncated / mangled key collides).
const STRS: [&str; 9] = ["", "aaaaaa", "aaaaaab", "b|c", "b|", "\"q\"", "x\\y", "aaaaaa|", "aaaaaabb"];

pub fn key_args(k: u8) -> Vec<ArgVal> {
    let a = if k < 9 { [0u128, 0, 0, 1, 1, 10, 10, 10, 1][k as usize] } else { 100 + k as u128 };
    vec![ArgVal::U(a), ArgVal::Str(STRS[(k % 9) as usize].to_string())]
}

/// Arguments (and receiver) of call number `k` of function `d`: the fixed pool for the
/// standard `(u32, String)` signature, otherwise values generated from (function, k).
pub fn args_for(d: &FnDesc, k: u8) -> (Option<ArgVal>, Vec<ArgVal>) {
    if simple_sig(d) {
        return (None, key_args(k));
    }
    let mut bytes = [0u8; 96];
    let mut x = crate::infra::mix(d.id as u64, k as u64 + 1);
    for b in bytes.iter_mut() {
        x = crate::infra::splitmix64(x);
        *b = (x >> 24) as u8;
    }
    let mut dd = Dec::new(&bytes);
    let recv = if d.receiver != vrt::Receiver::None { Some(ArgVal::UStruct(k as u32 % 3, ["", "r|", "x\"y"][(k as usize / 3) % 3].to_string())) } else { None };
    let args = d.args.iter().map(|t| crate::c02::gen_val(t, &mut dd, 0)).collect();
    (recv, args)
}

fn simple_sig(d: &FnDesc) -> bool {
    d.receiver == vrt::Receiver::None && d.args.len() == 2 && d.args[0] == vrt::Ty::U32 && d.args[1] == vrt::Ty::String && d.gates == 0
}

/// Candidate functions per focus (indices into the static corpus), computed once.
fn candidates(focus: F2) -> &'static Vec<u32> {
    use std::sync::OnceLock;
    static CACHE: OnceLock<BTreeMap<&'static str, Vec<u32>>> = OnceLock::new();
    let m = CACHE.get_or_init(|| {
        let c = static_corpus();
        let mut m: BTreeMap<&'static str, Vec<u32>> = BTreeMap::new();
        if crate::macro_l2::is_generated_corpus() {
            // a generated program: every check draws from all of its functions
            let all: Vec<u32> = c.funcs.iter().filter(|d| d.gates == 0).map(|d| d.id).collect();
            let shared: Vec<u32> = c.funcs.iter().filter(|d| d.gates == 0 && d.flavour != Flavour::Thread).map(|d| d.id).collect();
            for k in ["C01", "C03", "C04", "C05", "C06", "C07", "C08", "C09", "C10", "C11", "C16", "C19"] {
                m.insert(k, all.clone());
            }
            for k in ["C12", "C13", "C15"] {
                m.insert(k, shared.clone());
            }
            return m;
        }
        let all: Vec<&FnDesc> = c.funcs.iter().filter(|d| simple_sig(d)).collect();
        let ids = |p: &dyn Fn(&FnDesc) -> bool| -> Vec<u32> { all.iter().filter(|d| p(d)).map(|d| d.id).collect() };
        let plain = |d: &FnDesc| !d.is_result() && !d.cache_if && !d.invalidate_on;
        m.insert("C01", ids(&|d| plain(d) && matches!(d.family, "grid" | "tlru" | "edge" | "tmpl" | "ret")));
        m.insert("C03", ids(&|d| plain(d) && d.limit.is_none() && d.ttl.is_none() && d.max_memory.is_none() && matches!(d.family, "grid" | "concu" | "ret")));
        m.insert("C04", ids(&|d| plain(d) && d.limit.is_some() && matches!(d.family, "grid" | "tlru" | "conc" | "edge" | "bulk")));
        m.insert("C05", ids(&|d| plain(d) && d.max_memory.is_some() && matches!(d.family, "grid" | "conc" | "edge" | "memtag")));
        m.insert("C06", ids(&|d| plain(d) && d.ttl.is_some() && matches!(d.family, "grid" | "tlru" | "conc" | "edge")));
        m.insert("C07", ids(&|d| plain(d) && matches!(d.effective_policy(), Policy::Fifo | Policy::Lru) && (d.limit.is_some() || d.max_memory.is_some()) && matches!(d.family, "grid" | "bulk" | "memtag")));
        m.insert(
            "C08",
            ids(&|d| plain(d) && matches!(d.effective_policy(), Policy::Lfu | Policy::Arc | Policy::Tlru) && d.flavour != Flavour::Thread && d.limit.is_some() && d.ttl != Some(1) && matches!(d.family, "grid" | "tlru")),
        );
        m.insert("C09", ids(&|d| d.family == "res" || (matches!(d.family, "tmpl" | "ret") && d.is_result())));
        m.insert("C10", ids(&|d| d.family == "cif" || (d.family == "inv" && d.cache_if)));
        m.insert("C11", ids(&|d| d.family == "inv"));
        m.insert("C12", ids(&|d| d.flavour != Flavour::Thread && matches!(d.family, "reg" | "conc" | "concu" | "depg" | "oddname" | "regr")));
        m.insert("C13", ids(&|d| d.flavour != Flavour::Thread && ((matches!(d.family, "reg" | "oddname")) || (d.family == "conc" && d.ttl.is_none()) || (plain(d) && matches!(d.family, "grid" | "bulk" | "memtag") && (d.limit.is_some() || d.max_memory.is_some()) && d.ttl.is_none()))));
        m.insert("C15", ids(&|d| d.flavour != Flavour::Thread && matches!(d.family, "reg" | "grid" | "concu" | "res" | "inv" | "oddname")));
        m.insert("C16", ids(&|_| true));
        m.insert("C19", c.funcs.iter().filter(|d| d.gates == 0).map(|d| d.id).collect());
        m
    });
    m.get(focus.id()).expect("focus candidates")
}

pub fn decode(bytes: &[u8], focus: F2, tier: Tier) -> MacroCase {
    let mut d = Dec::new(bytes);
    let cands = candidates(focus);
    let corpus = static_corpus();
    let nf = match focus {
        F2::C01 => 2 + d.choose(2),
        F2::C13 | F2::C15 => 2 + d.choose(3),
        F2::C12 => 3 + d.choose(6),
        F2::C16 => 1 + d.choose(3),
        F2::C19 => 1 + d.choose(3),
        _ => 1 + d.choose(2),
    };
    let mut fns: Vec<u32> = Vec::new();
    for _ in 0..nf {
        let id = cands[d.choose16(cands.len())];
        if !fns.contains(&id) {
            fns.push(id);
        }
    }
    if matches!(focus, F2::C13 | F2::C07 | F2::C05) && d.chance(1, 5) {
        // a tagged cache bounded by max_memory only: group invalidation followed by re-stores
        // under memory pressure (the queue must have forgotten the invalidated entries)
        let mt: Vec<u32> = cands.iter().copied().filter(|id| corpus.by_id(*id).family == "memtag").collect();
        if !mt.is_empty() {
            // alone, so that the whole history works on this cache
            fns = vec![mt[d.choose(mt.len())]];
        }
    }
    if focus == F2::C12 && fns.iter().any(|id| corpus.by_id(*id).family == "depg") {
        // a dependency graph is interesting as a whole: take every cache of that graph (mutual
        // pair, chain, self-dependency), in a generated first-use order
        let fl = corpus.by_id(*fns.iter().find(|id| corpus.by_id(**id).family == "depg").unwrap()).flavour;
        let mut group: Vec<u32> = corpus.funcs.iter().filter(|d| d.family == "depg" && d.flavour == fl).map(|d| d.id).collect();
        let rot = d.choose(group.len());
        group.rotate_left(rot);
        if d.chance(1, 2) {
            group.reverse();
        }
        for g in group {
            if !fns.contains(&g) {
                fns.push(g);
            }
        }
    }
    if let Some(bid) = fns.iter().copied().find(|id| corpus.by_id(*id).family == "bulk") {
        return decode_bulk(&mut d, bid, focus);
    }
    let max_cap = fns.iter().map(|id| corpus.by_id(*id).limit.unwrap_or(2).min(6)).max().unwrap_or(2);
    let n_keys = (max_cap + 1 + d.choose(3)).min(8) as u8;
    let max_ops = match tier {
        Tier::Quick => 30,
        Tier::Thorough => 50,
    };
    let n_ops = 4 + d.choose(max_ops);
    let ttl_ns: i64 = fns.iter().filter_map(|id| corpus.by_id(*id).ttl).next().map(crate::model::ttl_ns).map(|t| if t > 1000 * SEC { 3 * SEC } else { t }).unwrap_or(SEC);
    // weights: call, advance, invwith, invallwith, group, statsreset
    let w: [u32; 6] = match focus {
        F2::C01 => [16, 3, 2, 1, 1, 0],
        F2::C03 => [20, 0, 0, 0, 0, 0],
        F2::C04 => [18, 2, 1, 0, 2, 0],
        F2::C05 | F2::C07 => [18, 2, 0, 0, 1, 0],
        F2::C08 => [18, 3, 0, 0, 0, 0],
        F2::C06 => [12, 8, 0, 0, 0, 0],
        F2::C09 | F2::C10 => [18, 1, 0, 0, 0, 0],
        F2::C11 => [18, 4, 0, 0, 0, 0],
        F2::C13 => [14, 0, 4, 2, 2, 0],
        F2::C12 => [14, 0, 1, 0, 9, 0],
        F2::C15 => [14, 3, 2, 1, 1, 2],
        F2::C16 => [12, 3, 2, 1, 2, 1],
        F2::C19 => [16, 4, 2, 1, 2, 1],
    };
    let all_sync_thread_only = fns.iter().all(|id| corpus.by_id(*id).flavour == Flavour::Thread);
    let mut ops = Vec::with_capacity(n_ops);
    for _ in 0..n_ops {
        let mut kind = d.weighted(&w);
        if all_sync_thread_only && kind >= 2 {
            kind = 0;
        }
        let op = match kind {
            0 => {
                let f = d.choose(fns.len()) as u8;
                let k = d.choose(n_keys as usize) as u8;
                let fd = corpus.by_id(fns[f as usize]);
                let ok = if fd.is_result() { !d.chance(2, 5) } else { true };
                let cif = if fd.cache_if { !d.chance(2, 5) } else { true };
                let inv = if fd.invalidate_on { d.chance(2, 5) } else { false };
                MOp::Call { f, k, sc: CallScript { ok, cif, inv } }
            }
            1 => {
                let ns = match focus {
                    F2::C08 | F2::C05 | F2::C07 | F2::C13 => [SEC, 2 * SEC][d.choose(2)],
                    _ => [SEC, ttl_ns - SEC, ttl_ns - 1, ttl_ns, ttl_ns + 1, 250_000_000, 999_999_999, 500_000_000][d.choose(8)].max(0),
                };
                MOp::Advance { ns }
            }
            2 => MOp::InvWith { f: d.choose(fns.len()) as u8, mask: d.u16() },
            3 => MOp::InvAllWith { masks: (0..fns.len()).map(|_| d.u16()).collect() },
            4 => {
                let kind = ['t', 'e', 'd', 'n'][d.choose(4)];
                // strings: mostly ones that something declares, sometimes undeclared
                let f = corpus.by_id(fns[d.choose(fns.len())]);
                let pool: Vec<String> = match kind {
                    't' => f.tags.iter().map(|s| s.to_string()).collect(),
                    'e' => f.events.iter().map(|s| s.to_string()).collect(),
                    'd' => f.deps.iter().map(|s| s.to_string()).collect(),
                    _ => vec![f.cache_name.to_string()],
                };
                let alt = ["s0", "s1", "s2", "s3", "s4", "s5", "nothing", "conc", "regx_shared"];
                let s = if !pool.is_empty() && d.chance(3, 5) { pool[d.choose(pool.len())].clone() } else { alt[d.choose(alt.len())].to_string() };
                MOp::Group { kind, s }
            }
            _ => MOp::StatsReset { f: d.choose(fns.len()) as u8 },
        };
        ops.push(op);
    }
    MacroCase { fns, n_keys, ops }
}

/// A larger cache (limit 40 / 100) driven in phases: fills over ascending or strided keys,
/// bursts of random calls, predicate sweeps that remove many entries at once, group
/// invalidation, refills that overflow.
fn decode_bulk(d: &mut Dec, fid: u32, focus: F2) -> MacroCase {
    let corpus = static_corpus();
    let fd = corpus.by_id(fid);
    let cap = fd.limit.unwrap_or(40);
    let n_keys = (cap + 20 + d.choose(30)).min(250);
    let sc = CallScript { ok: true, cif: true, inv: false };
    let mut ops = Vec::new();
    let mut next = 0usize;
    let n_phases = 3 + d.choose(5);
    let shared = fd.flavour != Flavour::Thread;
    for ph in 0..n_phases {
        let kind = if ph == 0 { 0 } else { d.weighted(&[4, 3, if shared && !matches!(focus, F2::C07) { 4 } else { 0 }, if shared && matches!(focus, F2::C13 | F2::C12 | F2::C04) { 1 } else { 0 }]) };
        match kind {
            0 => {
                // fill with fresh keys (ascending or strided)
                let n = [cap / 2, cap, cap + 3, cap / 4 + 1, 7][d.choose(5)].max(1);
                let stride = [1usize, 1, 3, 7][d.choose(4)];
                for i in 0..n {
                    let k = (next + i * stride) % n_keys;
                    ops.push(MOp::Call { f: 0, k: k as u8, sc });
                }
                next = (next + n) % n_keys;
            }
            1 => {
                let n = 3 + d.choose(12);
                for _ in 0..n {
                    ops.push(MOp::Call { f: 0, k: d.choose16(n_keys) as u8, sc });
                }
            }
            2 => ops.push(MOp::InvWith { f: 0, mask: d.u16() }),
            _ => ops.push(MOp::Group { kind: 't', s: "bulk".to_string() }),
        }
    }
    MacroCase { fns: vec![fid], n_keys: n_keys as u8, ops }
}

pub fn describe(bytes: &[u8], focus: F2, tier: Tier) -> Value {
    let c = decode(bytes, focus, tier);
    let corpus = static_corpus();
    json!({
        "functions": c.fns.iter().map(|id| { let d = corpus.by_id(*id); json!({"id": id, "fn": d.fn_name, "macro": if d.flavour == Flavour::Async { "cache_async" } else { "cache" }, "attrs": d.attr_text}) }).collect::<Vec<_>>(),
        "n_keys": c.n_keys,
        "ops": serde_json::to_value(&c.ops).unwrap_or(Value::Null),
    })
}

fn evaluates(focus: F2, f: &L2Finding, d: &FnDesc, mem_evicted: bool) -> bool {
    let c = f.clause;
    match focus {
        F2::C01 => matches!(c, "ret-value" | "value" | "hit-absent" | "stale-store" | "body-ran-twice" | "stale-after-oversize-store"),
        F2::C03 => matches!(c, "miss-present" | "body-ran-twice" | "hit-absent" | "count" | "get-changed-store" | "not-stored"),
        F2::C04 => match c {
            "bound" | "count" | "get-changed-store" => true,
            "miss-present" | "hit-absent" => d.ttl.is_none(),
            _ => false,
        },
        F2::C05 => match c {
            "mem-bound" | "mem-count" | "oversize-displaced" | "oversize-cached" => true,
            "order" => mem_evicted && d.effective_policy() != Policy::Random,
            "miss-present" | "hit-absent" => d.flavour == Flavour::Thread && d.ttl.is_none(),
            _ => false,
        },
        F2::C06 => matches!(c, "served-expired" | "expired-not-purged" | "miss-present" | "get-changed-store"),
        F2::C07 => match c {
            "order" => true,
            "miss-present" | "hit-absent" => d.flavour == Flavour::Thread && d.ttl.is_none(),
            _ => false,
        },
        F2::C08 => c == "order",
        F2::C09 => matches!(c, "err-cached" | "miss-present" | "hit-absent" | "stored-unexpectedly" | "ret-value" | "not-stored"),
        F2::C10 => matches!(c, "cif-protocol" | "rejected-cached" | "miss-present" | "hit-absent" | "stored-unexpectedly" | "err-cached" | "not-stored"),
        F2::C11 => matches!(c, "inv-protocol" | "stale-served" | "valid-recomputed" | "value" | "ret-value" | "miss-present" | "hit-absent" | "stale-survived-refresh" | "not-stored"),
        F2::C12 => matches!(c, "registry-count" | "registry-count-group" | "registry-not-emptied" | "inv-precise" | "hit-absent" | "miss-present" | "no-listing"),
        F2::C13 => matches!(c, "inv-exact" | "inv-precise" | "registry-count" | "bound" | "count" | "order" | "mem-bound" | "mem-count" | "miss-present" | "hit-absent" | "no-listing"),
        F2::C15 => c == "stats",
        F2::C16 => c == "panic",
        // any divergence from the model configured with the written attribute values means an
        // attribute did not take effect as written (registry counts depend on process history
        // only in a non-forked run; cases are forked)
        // (victim order under TLRU with a ttl is judged only by C08, whose histories use
        // whole-second steps: the async cache measures lifetimes in whole seconds)
        F2::C19 => c != "panic" && c != "stale-after-oversize-store" && !(c == "order" && d.effective_policy() == Policy::Tlru && d.ttl.is_some()),
    }
}

struct Acc {
    hit_after: bool,
    disturbance: bool,
    overflow: bool,
    mem: bool,
    near: bool,
    differ: bool,
    score: bool,
    expiry: bool,
    repeat_call: bool,
    err_then_ok_then_call: bool,
    two_errs: bool,
    cif_accept: bool,
    cif_reject: bool,
    rejected_called_again: bool,
    stale_then_call: bool,
    proper_subset: bool,
    overflow_after_inv: bool,
    any_hit: bool,
    any_miss: bool,
    any_inv: bool,
    group_match_with_bystander: bool,
    undeclared_request: bool,
}

pub fn run_case(bytes: &[u8], focus: F2, tier: Tier) -> CaseOut {
    let case = decode(bytes, focus, tier);
    let key = hash_of(&case);
    let h = std::thread::Builder::new().stack_size(4 << 20).spawn(move || run_in_thread(case, focus, key)).expect("spawn case thread");
    match h.join() {
        Ok(o) => o,
        Err(_) => {
            eprintln!("INCONCLUSIVE: harness panic in layer-2 case thread");
            std::process::exit(2);
        }
    }
}

fn run_in_thread(case: MacroCase, focus: F2, key: u64) -> CaseOut {
    let mut out = CaseOut { key, ..CaseOut::default() };
    let corpus = static_corpus();
    vrt::clock::freeze(0);
    fastrand::seed(key | 1);
    crate::infra::install_panic_hook_once();
    let mut sim = match MacroSim::new(corpus, &case.fns) {
        Ok(s) => s,
        Err(e) => {
            if focus == F2::C13 {
                out.violation = Some(Violation { signature: "C13:reset:inv-exact".into(), clause: "inv-exact".into(), step: 0, expected: "invalidate_with(name, |_| true) empties the cache".into(), observed: e });
            } else {
                out.aborted_foreign = true;
                out.classes.push("reset_failed");
            }
            vrt::clock::unfreeze();
            return out;
        }
    };
    let mut a = Acc {
        hit_after: false,
        disturbance: false,
        overflow: false,
        mem: false,
        near: false,
        differ: false,
        score: false,
        expiry: false,
        repeat_call: false,
        err_then_ok_then_call: false,
        two_errs: false,
        cif_accept: false,
        cif_reject: false,
        rejected_called_again: false,
        stale_then_call: false,
        proper_subset: false,
        overflow_after_inv: false,
        any_hit: false,
        any_miss: false,
        any_inv: false,
        group_match_with_bystander: false,
        undeclared_request: false,
    };
    // per (fn, key): history flags
    let mut called: BTreeSet<(u8, u8)> = BTreeSet::new();
    let mut err_state: BTreeMap<(u8, u8), u8> = BTreeMap::new(); // 1 = last was Err, 2 = Err then Ok
    let mut rejected: BTreeSet<(u8, u8)> = BTreeSet::new();
    let mut stale_seen: BTreeSet<(u8, u8)> = BTreeSet::new();
    let mut fns_used: BTreeSet<u8> = BTreeSet::new();
    let mut inv_done = false;

    'ops: for (step, op) in case.ops.iter().enumerate() {
        let mut findings: Vec<L2Finding> = Vec::new();
        let mut mem_evicted = false;
        match op {
            MOp::Call { f, k, sc } => {
                let fi = *f as usize % sim.fns.len();
                let (recv, args) = args_for(sim.fns[fi].d, *k);
                let info = sim.call(fi, recv.as_ref(), &args, sc);
                if let Some(msg) = info.panicked {
                    if focus == F2::C16 {
                        let d = sim.fns[fi].d;
                        out.violation = Some(Violation {
                            signature: format!("C16:macro:{:?}:{}:panic", d.flavour, d.effective_policy().name()),
                            clause: "panic".into(),
                            step,
                            expected: format!("{}({}) completes", d.fn_name, d.attr_text),
                            observed: format!("panic: {}", msg.chars().take(200).collect::<String>()),
                        });
                    } else {
                        out.aborted_foreign = true;
                        out.classes.push("aborted_by_panic");
                    }
                    break 'ops;
                }
                fns_used.insert(*f);
                let id = (*f, *k);
                if !called.insert(id) {
                    a.repeat_call = true;
                    if rejected.contains(&id) {
                        a.rejected_called_again = true;
                    }
                    if stale_seen.contains(&id) {
                        a.stale_then_call = true;
                    }
                    if err_state.get(&id) == Some(&2) {
                        a.err_then_ok_then_call = true;
                    }
                }
                if info.executed {
                    a.any_miss = true;
                    if info.was_err {
                        if err_state.get(&id) == Some(&1) {
                            a.two_errs = true;
                        }
                        err_state.insert(id, 1);
                    } else if err_state.get(&id) == Some(&1) {
                        err_state.insert(id, 2);
                    }
                    if sim.fns[fi].d.cache_if {
                        if info.cif_rejected {
                            a.cif_reject = true;
                            rejected.insert(id);
                        } else {
                            a.cif_accept = true;
                        }
                    }
                } else {
                    a.any_hit = true;
                    if a.disturbance && fns_used.len() >= 2 {
                        a.hit_after = true;
                    }
                }
                if info.inv_stale {
                    stale_seen.insert(id);
                    a.disturbance = true;
                }
                let s = &info.step;
                if s.overflow {
                    a.overflow = true;
                    if inv_done {
                        a.overflow_after_inv = true;
                    }
                }
                if s.mem_evicted || s.oversize_rejected || s.exact_fit {
                    a.mem = true;
                }
                mem_evicted = s.mem_evicted;
                if s.near_boundary {
                    a.near = true;
                }
                if s.fifo_lru_differ {
                    a.differ = true;
                }
                if s.score_decides {
                    a.score = true;
                }
                if s.expired {
                    a.expiry = true;
                    a.disturbance = true;
                }
                if !s.removed.is_empty() {
                    a.disturbance = true;
                }
                findings = info.findings;
            }
            MOp::Advance { ns } => vrt::clock::advance_ns(*ns),
            MOp::InvWith { f, mask } => {
                let fi = *f as usize % sim.fns.len();
                if sim.fns[fi].d.flavour == Flavour::Thread {
                    continue;
                }
                let stored: Vec<String> = sim.fns[fi].model.entries.keys().cloned().collect();
                let mut subset: BTreeSet<String> = stored.iter().enumerate().filter(|(i, _)| mask & (1 << (i % 15)) != 0).map(|(_, k)| k.clone()).collect();
                if !subset.is_empty() && subset.len() < stored.len() {
                    a.proper_subset = true;
                }
                if mask & 0x8000 != 0 {
                    subset.insert("99|\"zz\"".to_string());
                }
                if !subset.is_empty() {
                    a.disturbance = true;
                    a.any_inv = true;
                    inv_done = true;
                }
                findings = sim.invalidate_with(fi, &subset);
            }
            MOp::InvAllWith { masks } => {
                let mut subsets: BTreeMap<String, BTreeSet<String>> = BTreeMap::new();
                for (fi, st) in sim.fns.iter().enumerate() {
                    if st.d.flavour == Flavour::Thread {
                        continue;
                    }
                    let mask = masks.get(fi).copied().unwrap_or(0);
                    let stored: Vec<String> = st.model.entries.keys().cloned().collect();
                    let subset: BTreeSet<String> = stored.iter().enumerate().filter(|(i, _)| mask & (1 << (i % 15)) != 0).map(|(_, k)| k.clone()).collect();
                    if !subset.is_empty() && subset.len() < stored.len() {
                        a.proper_subset = true;
                    }
                    if !subset.is_empty() {
                        a.disturbance = true;
                        a.any_inv = true;
                        inv_done = true;
                    }
                    subsets.insert(st.d.cache_name.to_string(), subset);
                }
                findings = sim.invalidate_all_with(&subsets);
            }
            MOp::Group { kind, s } => {
                {
                    let used = crate::macro_l2::used_ever();
                    let declared = corpus.funcs.iter().filter(|f| used.contains(&f.id)).any(|f| match kind {
                        't' => f.tags.iter().any(|t| t == s),
                        'e' => f.events.iter().any(|t| t == s),
                        'd' => f.deps.iter().any(|t| t == s),
                        _ => f.cache_name == s.as_str() && f.declares_metadata(),
                    });
                    if !declared {
                        a.undeclared_request = true;
                    }
                }
                let holding: Vec<bool> = sim.fns.iter().map(|st| !st.model.entries.is_empty()).collect();
                let before: Vec<usize> = sim.fns.iter().map(|st| st.model.entries.len()).collect();
                findings = sim.invalidate_group(*kind, s);
                let emptied = sim.fns.iter().zip(before.iter()).filter(|(st, b)| **b > 0 && st.model.entries.is_empty()).count();
                let bystanders = sim.fns.iter().zip(holding.iter()).filter(|(st, h)| **h && !st.model.entries.is_empty()).count();
                if emptied > 0 {
                    a.disturbance = true;
                    a.any_inv = true;
                    inv_done = true;
                    if bystanders > 0 {
                        a.group_match_with_bystander = true;
                    }
                }
            }
            MOp::StatsReset { f } => {
                let fi = *f as usize % sim.fns.len();
                if sim.fns[fi].d.flavour == Flavour::Thread {
                    continue;
                }
                findings = sim.stats_reset(fi);
            }
        }
        for f in &findings {
            if f.clause == "panic" {
                if focus == F2::C16 {
                    out.violation = Some(Violation { signature: "C16:macro:invalidation:panic".into(), clause: "panic".into(), step, expected: f.expected.clone(), observed: f.observed.clone() });
                } else {
                    out.aborted_foreign = true;
                }
                break 'ops;
            }
            let d = if f.fn_id == 0 { sim.fns[0].d } else { corpus.by_id(f.fn_id) };
            if evaluates(focus, f, d, mem_evicted) {
                out.violation = Some(Violation {
                    signature: format!("{}:macro:{}:{}:{}", focus.id(), match d.flavour { Flavour::Global => "global", Flavour::Thread => "thread", Flavour::Async => "async" }, d.effective_policy().name(), f.clause),
                    clause: f.clause.to_string(),
                    step,
                    expected: format!("[{} #{} ({})] {}", d.fn_name, d.id, d.attr_text, f.expected),
                    observed: f.observed.clone(),
                });
                break 'ops;
            }
        }
    }
    // end-of-case statistics consistency (C03 / C15): hits = calls - executions for plain functions
    if out.violation.is_none() && !out.aborted_foreign && matches!(focus, F2::C03 | F2::C15) {
        for st in &sim.fns {
            if st.d.flavour == Flavour::Thread {
                continue;
            }
            if let Some((h, m)) = crate::macro_l2::stats_of(st.d.cache_name) {
                if (h, m) != (st.hits, st.misses) {
                    out.violation = Some(Violation {
                        signature: format!("{}:macro:stats-final", focus.id()),
                        clause: "stats".into(),
                        step: case.ops.len(),
                        expected: format!("{}: hits {} misses {}", st.d.cache_name, st.hits, st.misses),
                        observed: format!("hits {} misses {}", h, m),
                    });
                }
            }
        }
    }
    for (f, c) in [(Flavour::Global, "flavour_global"), (Flavour::Thread, "flavour_thread"), (Flavour::Async, "flavour_async")] {
        if sim.fns.iter().any(|s| s.d.flavour == f) {
            out.classes.push(c);
        }
    }
    let mut push = |b: bool, c: &'static str| {
        if b {
            out.classes.push(c)
        }
    };
    push(a.overflow, "overflow");
    push(a.mem, "memory_pressure");
    push(a.expiry, "expiry");
    push(a.near, "near_ttl_boundary");
    push(a.differ, "fifo_lru_victims_differ");
    push(a.score, "score_decides");
    push(a.hit_after, "hit_after_disturbance");
    push(a.repeat_call, "repeat_call");
    push(a.err_then_ok_then_call, "err_ok_call");
    push(a.two_errs, "two_errs");
    push(a.rejected_called_again, "rejected_called_again");
    push(a.stale_then_call, "stale_then_call");
    push(a.proper_subset, "proper_subset_invalidation");
    push(a.overflow_after_inv, "overflow_after_invalidation");
    push(a.group_match_with_bystander, "group_invalidation_with_bystander");
    push(a.undeclared_request, "undeclared_request");
    out.nontrivial = match focus {
        F2::C01 => a.hit_after,
        F2::C03 => a.repeat_call,
        F2::C04 => a.overflow,
        F2::C05 => a.mem,
        F2::C06 => a.near,
        F2::C07 => a.differ || (a.overflow && sim.fns.iter().any(|s| s.d.flavour == Flavour::Thread)),
        F2::C08 => a.score,
        F2::C09 => a.err_then_ok_then_call || a.two_errs,
        F2::C10 => a.cif_accept && a.cif_reject && a.rejected_called_again,
        F2::C11 => a.stale_then_call,
        F2::C12 => a.group_match_with_bystander || a.undeclared_request,
        F2::C13 => (a.proper_subset && a.overflow_after_inv) || a.group_match_with_bystander,
        F2::C15 => a.any_hit && a.any_miss && (a.expiry || a.any_inv),
        F2::C16 => a.overflow || a.mem || a.expiry,
        F2::C19 => {
            let multi = sim.fns.iter().any(|s| s.d.attr_text.matches(" = ").count() >= 2);
            multi && (a.overflow || a.mem || a.expiry || a.cif_reject || a.any_inv || a.stale_then_call || a.two_errs || a.err_then_ok_then_call)
        }
    };
    vrt::clock::unfreeze();
    out
}

macro_rules! f2_fns {
    ($run:ident, $desc:ident, $f:expr) => {
        pub fn $run(b: &[u8], t: Tier) -> CaseOut {
            run_case(b, $f, t)
        }
        pub fn $desc(b: &[u8], t: Tier) -> Value {
            describe(b, $f, t)
        }
    };
}
f2_fns!(run_c01, desc_c01, F2::C01);
f2_fns!(run_c03, desc_c03, F2::C03);
f2_fns!(run_c04, desc_c04, F2::C04);
f2_fns!(run_c05, desc_c05, F2::C05);
f2_fns!(run_c06, desc_c06, F2::C06);
f2_fns!(run_c07, desc_c07, F2::C07);
f2_fns!(run_c08, desc_c08, F2::C08);
f2_fns!(run_c09, desc_c09, F2::C09);
f2_fns!(run_c10, desc_c10, F2::C10);
f2_fns!(run_c11, desc_c11, F2::C11);
f2_fns!(run_c12, desc_c12, F2::C12);
f2_fns!(run_c13, desc_c13, F2::C13);
f2_fns!(run_c15, desc_c15, F2::C15);
f2_fns!(run_c16, desc_c16, F2::C16);
f2_fns!(run_c19, desc_c19, F2::C19);

pub const L2_LEN_QUICK: usize = 16 + 31 * 6 + 8;
pub const L2_LEN_THOROUGH: usize = 16 + 55 * 6 + 8;

// ---------------------------------------------------------------------------------------
// C14: thread scope isolates, global scope shares
// ---------------------------------------------------------------------------------------

#[derive(Clone, Debug, Hash, PartialEq, Serialize)]
pub struct ThreadCase {
    pub fns: Vec<u32>,
    pub n_threads: u8,
    pub n_keys: u8,
    /// (thread, function index, key)
    pub ops: Vec<(u8, u8, u8)>,
    pub advances: Vec<(u8, i64)>,
}

fn c14_candidates() -> &'static Vec<u32> {
    use std::sync::OnceLock;
    static C: OnceLock<Vec<u32>> = OnceLock::new();
    C.get_or_init(|| {
        static_corpus()
            .funcs
            .iter()
            .filter(|d| simple_sig(d) && !d.is_result() && !d.cache_if && !d.invalidate_on && matches!(d.family, "grid" | "tlru" | "thrtag") && d.max_memory.is_none())
            .map(|d| d.id)
            .collect()
    })
}

pub fn decode_c14(bytes: &[u8], tier: Tier) -> ThreadCase {
    let mut d = Dec::new(bytes);
    let cands = c14_candidates();
    let corpus = static_corpus();
    let nf = 1 + d.choose(3);
    let mut fns: Vec<u32> = Vec::new();
    for i in 0..nf {
        // bias the first function towards thread scope
        let mut id = cands[d.choose16(cands.len())];
        if i == 0 {
            for _ in 0..4 {
                if corpus.by_id(id).flavour == Flavour::Thread {
                    break;
                }
                id = cands[d.choose16(cands.len())];
            }
        }
        if !fns.contains(&id) {
            fns.push(id);
        }
    }
    let n_threads = 2 + d.choose(3) as u8;
    let max_cap = fns.iter().map(|id| corpus.by_id(*id).limit.unwrap_or(2).min(6)).max().unwrap_or(2);
    let n_keys = (max_cap + 1 + d.choose(2)).min(6) as u8;
    let n_ops = 6 + d.choose(match tier {
        Tier::Quick => 30,
        Tier::Thorough => 50,
    });
    let mut ops = Vec::new();
    let mut advances = Vec::new();
    for i in 0..n_ops {
        if d.chance(1, 12) {
            advances.push((i as u8, [SEC, 2 * SEC, 999_999_999][d.choose(3)]));
        }
        ops.push((d.choose(n_threads as usize) as u8, d.choose(fns.len()) as u8, d.choose(n_keys as usize) as u8));
    }
    ThreadCase { fns, n_threads, n_keys, ops, advances }
}

pub fn desc_c14(bytes: &[u8], tier: Tier) -> Value {
    let c = decode_c14(bytes, tier);
    let corpus = static_corpus();
    json!({
        "functions": c.fns.iter().map(|id| { let d = corpus.by_id(*id); json!({"fn": d.fn_name, "attrs": d.attr_text}) }).collect::<Vec<_>>(),
        "threads": c.n_threads,
        "ops(thread,fn,key)": c.ops,
        "advances(before op, ns)": c.advances,
    })
}

pub fn run_c14(bytes: &[u8], tier: Tier) -> CaseOut {
    use std::sync::mpsc::{channel, Sender};
    use std::sync::{Arc, Mutex};
    let case = decode_c14(bytes, tier);
    let mut out = CaseOut { key: hash_of(&case), ..CaseOut::default() };
    let corpus = static_corpus();
    vrt::clock::freeze(0);
    crate::infra::install_panic_hook_once();
    // simulation slots: one per (thread-scope function, thread), one per shared function
    let nt = case.n_threads as usize;
    let mut slot_of: Vec<Vec<usize>> = Vec::new(); // [fn index][thread] -> slot
    let mut ids: Vec<u32> = Vec::new();
    for id in &case.fns {
        let d = corpus.by_id(*id);
        if d.flavour == Flavour::Thread {
            let base = ids.len();
            for _ in 0..nt {
                ids.push(*id);
            }
            slot_of.push((0..nt).map(|t| base + t).collect());
        } else {
            let s = ids.len();
            ids.push(*id);
            slot_of.push(vec![s; nt]);
        }
    }
    let sim = match MacroSim::new(corpus, &ids) {
        Ok(s) => Arc::new(Mutex::new(s)),
        Err(_) => {
            out.aborted_foreign = true;
            vrt::clock::unfreeze();
            return out;
        }
    };
    type Job = (usize, u8);
    let mut senders: Vec<Option<Sender<Option<Job>>>> = (0..nt).map(|_| None).collect();
    let mut handles = Vec::new();
    let (res_tx, res_rx) = channel::<crate::macro_l2::CallInfo>();
    let mut callers: BTreeMap<(u8, u8), BTreeSet<u8>> = BTreeMap::new();
    let mut shared_by_two = false;
    let mut started_late_hit = false;
    let mut threads_started = 0usize;

    'ops: for (i, (t, f, k)) in case.ops.iter().enumerate() {
        for (at, ns) in &case.advances {
            if *at as usize == i {
                vrt::clock::advance_ns(*ns);
            }
        }
        let t = *t as usize % nt;
        let fi = *f as usize % case.fns.len();
        if senders[t].is_none() {
            let (tx, rx) = channel::<Option<Job>>();
            let sim2 = sim.clone();
            let res = res_tx.clone();
            let seed = out.key ^ (t as u64 + 1);
            handles.push(std::thread::spawn(move || {
                fastrand::seed(seed | 1);
                while let Ok(Some((slot, key))) = rx.recv() {
                    let args = key_args(key);
                    let info = sim2.lock().unwrap().call(slot, None, &args, &CallScript::default());
                    let _ = res.send(info);
                }
            }));
            senders[t] = Some(tx);
            threads_started += 1;
        }
        let slot = slot_of[fi][t];
        senders[t].as_ref().unwrap().send(Some((slot, *k))).expect("send job");
        let info = match res_rx.recv() {
            Ok(i) => i,
            Err(_) => {
                eprintln!("INCONCLUSIVE: C14 worker thread died");
                std::process::exit(2);
            }
        };
        if info.panicked.is_some() {
            out.aborted_foreign = true;
            break 'ops;
        }
        let set = callers.entry((fi as u8, *k)).or_default();
        let first_time_for_thread = set.insert(t as u8);
        if set.len() >= 2 {
            shared_by_two = true;
            if first_time_for_thread && !info.executed && threads_started >= 2 {
                started_late_hit = true;
            }
        }
        let d = corpus.by_id(case.fns[fi]);
        for fnd in &info.findings {
            if matches!(fnd.clause, "hit-absent" | "miss-present" | "ret-value" | "value" | "stale-store" | "served-expired") {
                out.violation = Some(Violation {
                    signature: format!("C14:{}:{}:{}", match d.flavour { Flavour::Global => "global", Flavour::Thread => "thread", Flavour::Async => "async" }, d.effective_policy().name(), fnd.clause),
                    clause: fnd.clause.to_string(),
                    step: i,
                    expected: format!("[thread {} calls {} ({})] {}", t, d.fn_name, d.attr_text, fnd.expected),
                    observed: fnd.observed.clone(),
                });
                break 'ops;
            }
        }
    }
    for s in senders.iter().flatten() {
        let _ = s.send(None);
    }
    for h in handles {
        let _ = h.join();
    }
    out.nontrivial = shared_by_two;
    if shared_by_two {
        out.classes.push("same_call_from_two_threads");
    }
    if started_late_hit {
        out.classes.push("shared_hit_in_other_thread");
    }
    for (f, c) in [(Flavour::Global, "flavour_global"), (Flavour::Thread, "flavour_thread"), (Flavour::Async, "flavour_async")] {
        if case.fns.iter().any(|id| corpus.by_id(*id).flavour == f) {
            out.classes.push(c);
        }
    }
    vrt::clock::unfreeze();
    out
}
