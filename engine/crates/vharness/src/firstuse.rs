//! C12, first-use part: a cache registers its metadata and its clear callback on first use.
//! Two free-running threads make the *first* calls of a function of this process at the same
//! time (every case runs in a forked child of a worker that never calls corpus functions);
//! one of them is delayed for a generated time just before one of its first lock
//! acquisitions (noise injection through the instrumented locks: `std::sync::Once` cannot be
//! owned by the deterministic scheduler).  Each thread, once its own call has returned - the
//! cache has then been used - invalidates by a label the function declares (or by name) and
//! calls again: the count includes this cache and the body runs.

use crate::infra::{hash_of, CaseOut, Dec, Tier, Violation};
use crate::l2_checks::key_args;
use crate::macro_l2::{do_call, static_corpus, CallScript};
use serde::Serialize;
use serde_json::{json, Value};
use std::sync::{Arc, Barrier};
use vrt::{Flavour, FnDesc};

#[derive(Clone, Debug, Hash, PartialEq, Serialize)]
pub struct FirstUseCase {
    pub fn_id: u32,
    /// 't' tag, 'e' event, 'd' dependency, 'n' name
    pub kind: char,
    pub label: String,
    /// (lock acquisition index, microseconds) of the delay injected into each thread's first call
    pub delays: Vec<(u32, u32)>,
    pub keys: Vec<u8>,
}

fn candidates() -> &'static Vec<u32> {
    use std::sync::OnceLock;
    static C: OnceLock<Vec<u32>> = OnceLock::new();
    C.get_or_init(|| {
        static_corpus()
            .funcs
            .iter()
            .filter(|d| d.flavour != Flavour::Thread && d.gates == 0 && d.receiver == vrt::Receiver::None && d.args.len() == 2 && !d.is_result() && !d.cache_if && !d.invalidate_on && (!d.tags.is_empty() || !d.events.is_empty() || !d.deps.is_empty()))
            .map(|d| d.id)
            .collect()
    })
}

pub fn decode(bytes: &[u8]) -> FirstUseCase {
    let mut d = Dec::new(bytes);
    let corpus = static_corpus();
    let cands = candidates();
    let fd: &FnDesc = corpus.by_id(cands[d.choose16(cands.len())]);
    let mut kinds: Vec<(char, String)> = Vec::new();
    for t in fd.tags {
        kinds.push(('t', t.to_string()));
    }
    for e in fd.events {
        kinds.push(('e', e.to_string()));
    }
    for x in fd.deps {
        kinds.push(('d', x.to_string()));
    }
    kinds.push(('n', fd.cache_name.to_string()));
    let (kind, label) = kinds[d.choose(kinds.len())].clone();
    let nt = 2 + d.choose(2);
    let delayed = d.choose(nt);
    let mut delays = Vec::new();
    for t in 0..nt {
        if t == delayed {
            delays.push((1 + d.choose(12) as u32, [200u32, 1000, 3000][d.choose(3)]));
        } else if d.chance(1, 4) {
            delays.push((1 + d.choose(12) as u32, 100));
        } else {
            delays.push((0, 0));
        }
    }
    let keys = (0..nt).map(|t| t as u8).collect();
    FirstUseCase { fn_id: fd.id, kind, label, delays, keys }
}

pub fn describe(bytes: &[u8], _t: Tier) -> Value {
    let c = decode(bytes);
    let d = static_corpus().by_id(c.fn_id);
    let mut v = serde_json::to_value(&c).unwrap_or(Value::Null);
    v["function"] = json!({"fn": d.fn_name, "macro": if d.flavour == Flavour::Async { "cache_async" } else { "cache" }, "attrs": d.attr_text});
    v
}

#[derive(Default)]
struct ThreadObs {
    first_executed: u32,
    delay_fired: bool,
    count: usize,
    second_executed: u32,
    failed: bool,
}

pub fn run_case(bytes: &[u8], t: Tier) -> CaseOut {
    run_mode(bytes, t, false)
}

/// C15 variant: instead of invalidating, each thread reads the statistics under the cache's
/// name once its own call has returned; at the end hits + misses = lookups.
pub fn run_case_stats(bytes: &[u8], t: Tier) -> CaseOut {
    run_mode(bytes, t, true)
}

fn run_mode(bytes: &[u8], _t: Tier, stats_mode: bool) -> CaseOut {
    let case = decode(bytes);
    let mut out = CaseOut { key: hash_of(&case), ..CaseOut::default() };
    let corpus = static_corpus();
    let d = corpus.by_id(case.fn_id);
    crate::infra::install_panic_hook_once();
    let nt = case.delays.len();
    let barrier = Arc::new(Barrier::new(nt));
    let mut hs = Vec::new();
    for t in 0..nt {
        let barrier = barrier.clone();
        let (after, micros) = case.delays[t];
        let k = case.keys[t];
        let (kind, label) = (case.kind, case.label.clone());
        hs.push(std::thread::spawn(move || {
            let corpus = static_corpus();
            let mut o = ThreadObs::default();
            let args = key_args(k);
            barrier.wait();
            if after > 0 {
                vsched::set_delay(after, micros);
            }
            match do_call(&corpus, d, None, &args, &CallScript::default(), 1) {
                Ok(c) => o.first_executed = c.executed,
                Err(_) => o.failed = true,
            }
            o.delay_fired = vsched::clear_delay();
            o.count = match kind {
                _ if stats_mode => {
                    // 1 + lookups seen so far, 0 if nothing is registered under the name
                    match cachelito_core::stats_registry::get(d.cache_name) {
                        Some(st) => 1 + (st.hits() + st.misses()) as usize,
                        None => 0,
                    }
                }
                't' => cachelito_core::invalidate_by_tag(&label),
                'e' => cachelito_core::invalidate_by_event(&label),
                'd' => cachelito_core::invalidate_by_dependency(&label),
                _ => cachelito_core::invalidate_cache(&label) as usize,
            };
            match do_call(&corpus, d, None, &args, &CallScript::default(), 2) {
                Ok(c) => o.second_executed = c.executed,
                Err(_) => o.failed = true,
            }
            o
        }));
    }
    let mut obs = Vec::new();
    for h in hs {
        match h.join() {
            Ok(o) => obs.push(o),
            Err(_) => {
                out.aborted_foreign = true;
                return out;
            }
        }
    }
    if obs.iter().any(|o| o.failed) {
        out.aborted_foreign = true;
        return out;
    }
    out.nontrivial = obs.iter().any(|o| o.delay_fired);
    if out.nontrivial {
        out.classes.push("delay_injected_into_a_first_call");
    }
    out.classes.push(if d.flavour == Flavour::Async { "flavour_async" } else { "flavour_global" });
    let fl = if d.flavour == Flavour::Async { "async" } else { "sync" };
    if stats_mode {
        for (t, o) in obs.iter().enumerate() {
            if o.count < 2 {
                out.violation = Some(Violation {
                    signature: format!("C15:{}:first-use:stats", fl),
                    clause: "first-use-stats".into(),
                    step: t,
                    expected: format!("thread {}: {}'s first call has returned: statistics are retrievable under {:?} and count at least that lookup", t, d.fn_name, d.cache_name),
                    observed: if o.count == 0 { "stats_registry::get returned None".to_string() } else { "hits + misses = 0".to_string() },
                });
                return out;
            }
        }
        let lookups = 2 * nt as u64;
        let total = crate::macro_l2::stats_of(d.cache_name).map(|(h, m)| h + m);
        if total != Some(lookups) {
            out.violation = Some(Violation {
                signature: format!("C15:{}:first-use:total", fl),
                clause: "first-use-total".into(),
                step: 0,
                expected: format!("{}: hits + misses = {} lookups ({} threads, two calls each)", d.cache_name, lookups, nt),
                observed: format!("{:?}", total),
            });
        }
        return out;
    }
    for (t, o) in obs.iter().enumerate() {
        if o.count == 0 {
            out.violation = Some(Violation {
                signature: format!("C12:{}:first-use:count", fl),
                clause: "first-use-count".into(),
                step: t,
                expected: format!("thread {}: {}'s first call has returned, so the cache has been used: invalidation by {:?} {:?} counts it (>= 1)", t, d.fn_name, case.kind, case.label),
                observed: "0 / false".into(),
            });
            break;
        }
        if o.second_executed == 0 {
            out.violation = Some(Violation {
                signature: format!("C12:{}:first-use:entry-survived", fl),
                clause: "first-use-entry-survived".into(),
                step: t,
                expected: format!("thread {}: after its invalidation by {:?} {:?} returned, its next call of {} runs the body", t, case.kind, case.label, d.fn_name),
                observed: "served from the cache".into(),
            });
            break;
        }
    }
    out
}
