//! Engine E4 checks: generated programs x generated schedules under the deterministic
//! scheduler (C17 deadlock freedom, C18 consistency, concurrent clauses of C03 and C15).

use crate::infra::{hash_of, CaseOut, Dec, Tier, Violation};
use crate::keys::{key_of, twin_value};
use crate::l2_checks::key_args;
use crate::macro_l2::{list_keys, ret_fp, static_corpus, stats_of, Corpus};
use serde::{Deserialize, Serialize};
use serde_json::{json, Value};
use std::collections::{BTreeMap, BTreeSet};
use std::sync::{Arc, Mutex};
use vrt::{Flavour, FnDesc, Policy, Ret};

#[derive(Clone, Copy, Debug, PartialEq, Eq, Hash, Serialize)]
pub enum SF {
    C17,
    C18,
    C03,
    C15,
    C14,
    C08,
    C07,
}

#[derive(Clone, Debug, Hash, PartialEq, Serialize, Deserialize)]
pub enum SOp {
    Call { f: u8, k: u8 },
    InvWith { f: u8, mask: u16 },
    InvAll { mask: u16 },
    Group { kind: char, s: String },
    StatsGet { f: u8 },
    StatsReset { f: u8 },
    StatsList,
}

#[derive(Clone, Debug, Hash, PartialEq, Serialize, Deserialize)]
pub struct SchedCase {
    pub fns: Vec<u32>,
    pub prefix: Vec<(u8, u8)>,
    pub age_prefix_ns: i64,
    pub threads: Vec<Vec<SOp>>,
    pub decisions: Vec<u8>,
}

fn conc_candidates(focus: SF) -> &'static Vec<u32> {
    use std::sync::OnceLock;
    static A: OnceLock<Vec<u32>> = OnceLock::new();
    static B: OnceLock<Vec<u32>> = OnceLock::new();
    match focus {
        SF::C17 | SF::C18 => A.get_or_init(|| static_corpus().funcs.iter().filter(|d| d.family == "conc").map(|d| d.id).collect()),
        SF::C03 | SF::C14 => B.get_or_init(|| static_corpus().funcs.iter().filter(|d| d.family == "concu").map(|d| d.id).collect()),
        SF::C15 => {
            static C: OnceLock<Vec<u32>> = OnceLock::new();
            C.get_or_init(|| static_corpus().funcs.iter().filter(|d| matches!(d.family, "concu" | "conc")).map(|d| d.id).collect())
        }
        SF::C07 => {
            static E: OnceLock<Vec<u32>> = OnceLock::new();
            E.get_or_init(|| {
                static_corpus()
                    .funcs
                    .iter()
                    .filter(|d| d.family == "grid" && d.flavour != Flavour::Thread && matches!(d.effective_policy(), Policy::Lru | Policy::Fifo) && d.limit == Some(3) && d.ttl.is_none() && d.max_memory.is_none())
                    .map(|d| d.id)
                    .collect()
            })
        }
        SF::C08 => {
            // hit counts are observable where only residents compete on overflow: the async cache
            static D: OnceLock<Vec<u32>> = OnceLock::new();
            D.get_or_init(|| {
                static_corpus()
                    .funcs
                    .iter()
                    .filter(|d| matches!(d.family, "conc" | "grid") && d.flavour == Flavour::Async && d.effective_policy() == Policy::Lfu && d.limit.map(|n| n >= 2).unwrap_or(false) && d.ttl.is_none() && d.max_memory.is_none() && !d.cache_if && !d.invalidate_on && !d.is_result())
                    .map(|d| d.id)
                    .collect()
            })
        }
    }
}

/// C07 under concurrency: limit 3, the prefix stores k0 then k1 (and may hit them); one thread
/// hits one of the two, another stores k2 into the free slot.  The other prefix key is then the
/// least recently used entry under every interleaving (its last use precedes the threads) and
/// k0 is the oldest store: the next overflowing store evicts exactly that entry.
fn decode_c07(d: &mut Dec, _tier: Tier) -> SchedCase {
    let cands = conc_candidates(SF::C07);
    let fid = cands[d.choose16(cands.len())];
    let mut prefix: Vec<(u8, u8)> = vec![(0, 0), (0, 1)];
    for _ in 0..d.choose(3) {
        prefix.push((0, d.choose(2) as u8));
    }
    let h = d.choose(2) as u8;
    let mut t_hit = vec![SOp::Call { f: 0, k: h }];
    if d.chance(1, 3) {
        t_hit.push(SOp::Call { f: 0, k: h });
    }
    let threads = if d.chance(1, 2) { vec![t_hit, vec![SOp::Call { f: 0, k: 2 }]] } else { vec![vec![SOp::Call { f: 0, k: 2 }], t_hit] };
    SchedCase { fns: vec![fid], prefix, age_prefix_ns: 0, threads, decisions: d.rest().to_vec() }
}

/// C08 under concurrency: the prefix fills the cache and gives every key but the first an
/// exact number of hits; the scheduled threads then hit the first key (and sometimes one
/// other) concurrently.  Afterwards one fresh store overflows the cache.
fn decode_c08(d: &mut Dec, tier: Tier) -> SchedCase {
    let corpus = static_corpus();
    let cands = conc_candidates(SF::C08);
    let fid = cands[d.choose16(cands.len())];
    let cap = corpus.by_id(fid).limit.unwrap_or(2).min(4);
    let mut prefix: Vec<(u8, u8)> = (0..cap as u8).map(|k| (0u8, k)).collect();
    for k in 1..cap as u8 {
        for _ in 0..d.choose(5) {
            prefix.push((0, k));
        }
    }
    let nt = 2 + if tier == Tier::Thorough && d.chance(1, 3) { 1 } else { 0 };
    let mut threads = Vec::new();
    for t in 0..nt {
        let mut ops = Vec::new();
        for _ in 0..1 + d.choose(3) {
            ops.push(SOp::Call { f: 0, k: 0 });
        }
        if t == 0 && d.chance(1, 3) {
            let at = d.choose(ops.len() + 1);
            ops.insert(at, SOp::Call { f: 0, k: 1 });
        }
        threads.push(ops);
    }
    SchedCase { fns: vec![fid], prefix, age_prefix_ns: 0, threads, decisions: d.rest().to_vec() }
}

pub fn decode(bytes: &[u8], focus: SF, tier: Tier) -> SchedCase {
    let mut d = Dec::new(bytes);
    if focus == SF::C08 {
        return decode_c08(&mut d, tier);
    }
    if focus == SF::C07 {
        return decode_c07(&mut d, tier);
    }
    let corpus = static_corpus();
    let cands = conc_candidates(focus);
    let nf = if d.chance(1, 4) { 2 } else { 1 };
    let mut fns = Vec::new();
    for _ in 0..nf {
        let id = cands[d.choose16(cands.len())];
        if !fns.contains(&id) {
            fns.push(id);
        }
    }
    let n_keys = 5usize;
    let n_prefix = d.choose(5);
    let prefix: Vec<(u8, u8)> = (0..n_prefix).map(|_| (d.choose(fns.len()) as u8, d.choose(n_keys) as u8)).collect();
    let ttl = fns.iter().filter_map(|id| corpus.by_id(*id).ttl).next();
    let age_prefix_ns = match (ttl, d.choose(4)) {
        (Some(t), 1) | (Some(t), 2) => t as i64 * crate::model::SEC,
        (Some(t), 3) => (t as i64 - 1) * crate::model::SEC,
        _ => 0,
    };
    let max_threads = match tier {
        Tier::Quick => 2,
        Tier::Thorough => 3,
    };
    let nt = 2 + if max_threads > 2 && d.chance(1, 3) { 1 } else { 0 };
    let w: [u32; 7] = match focus {
        SF::C17 | SF::C18 => [12, 4, 2, 4, 1, 1, 1],
        SF::C03 | SF::C14 => [10, 0, 0, 0, 0, 0, 0],
        SF::C15 => [12, 0, 0, 0, 2, 0, 1],
        SF::C08 | SF::C07 => unreachable!(),
    };
    let mut threads = Vec::new();
    for _ in 0..nt {
        let n = 1 + d.choose(4);
        let mut ops = Vec::new();
        for _ in 0..n {
            let op = match d.weighted(&w) {
                0 => {
                    // favour keys the prefix has cached (races on resident / expired entries)
                    if !prefix.is_empty() && focus != SF::C03 && d.chance(if focus == SF::C14 { 4 } else { 3 }, 5) {
                        let (f, k) = prefix[d.choose(prefix.len())];
                        SOp::Call { f, k }
                    } else {
                        SOp::Call { f: d.choose(fns.len()) as u8, k: d.choose(if matches!(focus, SF::C03 | SF::C14) { 2 } else { n_keys }) as u8 }
                    }
                }
                1 => SOp::InvWith { f: d.choose(fns.len()) as u8, mask: d.byte() as u16 },
                2 => SOp::InvAll { mask: d.byte() as u16 },
                3 => {
                    let kind = ['t', 'e', 'd', 'n'][d.choose(4)];
                    let f = corpus.by_id(fns[d.choose(fns.len())]);
                    let pool: Vec<&str> = match kind {
                        't' => f.tags.to_vec(),
                        'e' => f.events.to_vec(),
                        'd' => f.deps.to_vec(),
                        _ => vec![f.cache_name],
                    };
                    SOp::Group { kind, s: pool[d.choose(pool.len().max(1)) % pool.len().max(1)].to_string() }
                }
                4 => SOp::StatsGet { f: d.choose(fns.len()) as u8 },
                5 => SOp::StatsReset { f: d.choose(fns.len()) as u8 },
                _ => SOp::StatsList,
            };
            ops.push(op);
        }
        threads.push(ops);
    }
    let decisions = d.rest().to_vec();
    SchedCase { fns, prefix, age_prefix_ns, threads, decisions }
}

pub fn describe(bytes: &[u8], focus: SF, tier: Tier) -> Value {
    let c = decode(bytes, focus, tier);
    let corpus = static_corpus();
    json!({
        "functions": c.fns.iter().map(|id| { let d = corpus.by_id(*id); json!({"fn": d.fn_name, "macro": if d.flavour == Flavour::Async { "cache_async" } else { "cache" }, "attrs": d.attr_text}) }).collect::<Vec<_>>(),
        "prefix_calls(fn,key)": c.prefix,
        "age_prefix_ns": c.age_prefix_ns,
        "threads": serde_json::to_value(&c.threads).unwrap_or(Value::Null),
        "decisions": c.decisions.iter().map(|b| format!("{:02x}", b)).collect::<String>(),
    })
}

#[derive(Clone, Debug)]
pub struct OpRec {
    pub t: usize,
    pub i: usize,
    pub start: u64,
    pub end: u64,
    pub op: SOp,
    pub executed: u32,
    pub ret: Option<Ret>,
    pub version: u32,
}

fn plain_call(c: &Corpus, d: &FnDesc, k: u8, version: u32) -> (Ret, u32) {
    let args = key_args(k);
    vrt::begin_call(true, version, true, false);
    let ret = match d.flavour {
        Flavour::Async => vrt::block_on((c.call_async)(d.id, None, &args)),
        _ => (c.call)(d.id, None, &args),
    };
    (ret, vrt::executions())
}

fn keyset(d: &FnDesc, mask: u16) -> BTreeSet<String> {
    (0..8u8).filter(|i| mask & (1 << i) != 0).map(|i| key_of(d, None, &key_args(i))).collect()
}

/// Warm-up: complete every first-use registration sequentially (std `Once` cannot be scheduled).
pub fn warm_up(corpus: &Corpus, fns: &[&'static FnDesc]) {
    for d in fns {
        let _ = plain_call(corpus, d, 63, 0);
        let _ = cachelito_core::invalidate_with(d.cache_name, |_k: &str| true);
        let _ = cachelito_core::invalidate_cache(d.cache_name);
        let _ = cachelito_core::stats_registry::reset(d.cache_name);
    }
    let _ = cachelito_core::stats_registry::list();
}

pub struct SchedRun {
    pub report: vsched::Report,
    pub recs: Vec<OpRec>,
    /// versions used per (fn index, key)
    pub versions: BTreeMap<(u8, u8), Vec<u32>>,
    pub calls_total: BTreeMap<u8, u64>,
    /// body executions during the sequential prefix, per function
    pub prefix_execs: BTreeMap<u8, u64>,
}

pub fn execute(case: &SchedCase, trace: bool) -> SchedRun {
    execute_opts(case, vsched::Opts { step_limit: 100_000, trace, explicit: false, cycle: true, excl_only: None })
}

pub fn execute_opts(case: &SchedCase, opts: vsched::Opts) -> SchedRun {
    let corpus = static_corpus();
    let descs: Vec<&'static FnDesc> = case.fns.iter().map(|id| corpus.by_id(*id)).collect();
    vrt::clock::freeze(0);
    crate::infra::install_panic_hook_once();
    warm_up(&corpus, &descs);
    let mut versions: BTreeMap<(u8, u8), Vec<u32>> = BTreeMap::new();
    let mut calls_total: BTreeMap<u8, u64> = BTreeMap::new();
    let mut prefix_execs: BTreeMap<u8, u64> = BTreeMap::new();
    let mut ver = 0u32;
    fastrand::seed(hash_of(case) | 1);
    for (f, k) in &case.prefix {
        ver += 1;
        let fi = *f as usize % descs.len();
        let (_, ex) = plain_call(&corpus, descs[fi], *k, ver);
        *prefix_execs.entry(fi as u8).or_default() += ex as u64;
        versions.entry((fi as u8, *k)).or_default().push(ver);
        *calls_total.entry(fi as u8).or_default() += 1;
    }
    if case.age_prefix_ns > 0 {
        vrt::clock::advance_ns(case.age_prefix_ns);
    }
    let recs: Arc<Mutex<Vec<OpRec>>> = Arc::new(Mutex::new(Vec::new()));
    let mut bodies: Vec<vsched::Body> = Vec::new();
    for (t, ops) in case.threads.iter().enumerate() {
        for (i, op) in ops.iter().enumerate() {
            if let SOp::Call { f, k } = op {
                let fi = *f as usize % descs.len();
                versions.entry((fi as u8, *k)).or_default().push(1000 + (t as u32) * 100 + i as u32);
                *calls_total.entry(fi as u8).or_default() += 1;
            }
        }
        let ops = ops.clone();
        let descs = descs.clone();
        let recs = recs.clone();
        let seed = hash_of(case) ^ ((t as u64 + 1) << 32);
        bodies.push(Box::new(move || {
            fastrand::seed(seed | 1);
            for (i, op) in ops.iter().enumerate() {
                let start = vsched::now();
                let mut rec = OpRec { t, i, start, end: start, op: op.clone(), executed: 0, ret: None, version: 1000 + (t as u32) * 100 + i as u32 };
                match op {
                    SOp::Call { f, k } => {
                        let d = descs[*f as usize % descs.len()];
                        let (ret, ex) = plain_call(&corpus, d, *k, rec.version);
                        rec.ret = Some(ret);
                        rec.executed = ex;
                    }
                    SOp::InvWith { f, mask } => {
                        let d = descs[*f as usize % descs.len()];
                        let set = keyset(d, *mask);
                        let _ = cachelito_core::invalidate_with(d.cache_name, move |k: &str| set.contains(k));
                    }
                    SOp::InvAll { mask } => {
                        let sets: Vec<(String, BTreeSet<String>)> = descs.iter().map(|d| (d.cache_name.to_string(), keyset(d, *mask))).collect();
                        let _ = cachelito_core::invalidate_all_with(move |n: &str, k: &str| sets.iter().any(|(name, s)| name == n && s.contains(k)));
                    }
                    SOp::Group { kind, s } => {
                        let _ = match kind {
                            't' => cachelito_core::invalidate_by_tag(s),
                            'e' => cachelito_core::invalidate_by_event(s),
                            'd' => cachelito_core::invalidate_by_dependency(s),
                            _ => cachelito_core::invalidate_cache(s) as usize,
                        };
                    }
                    SOp::StatsGet { f } => {
                        let d = descs[*f as usize % descs.len()];
                        let _ = cachelito_core::stats_registry::get(d.cache_name);
                    }
                    SOp::StatsReset { f } => {
                        let d = descs[*f as usize % descs.len()];
                        let _ = cachelito_core::stats_registry::reset(d.cache_name);
                    }
                    SOp::StatsList => {
                        let _ = cachelito_core::stats_registry::list();
                    }
                }
                rec.end = vsched::now();
                recs.lock().unwrap().push(rec);
            }
        }));
    }
    let report = vsched::run(bodies, &case.decisions, opts);
    let recs = recs.lock().unwrap().clone();
    SchedRun { report, recs, versions, calls_total, prefix_execs }
}

fn flavour_name(d: &FnDesc) -> &'static str {
    match d.flavour {
        Flavour::Global => "sync",
        Flavour::Thread => "thread",
        Flavour::Async => "async",
    }
}

/// Sequential probe at quiescence (C18): bounds, values, evictability, expirability,
/// invalidatability of whatever the cache holds.
fn probe(corpus: &Corpus, d: &'static FnDesc, fi: u8, versions: &BTreeMap<(u8, u8), Vec<u32>>) -> Option<(String, String, String)> {
    let key_index: BTreeMap<String, u8> = (0..64u8).map(|k| (key_of(d, None, &key_args(k)), k)).collect();
    let allowed = |k: u8, ret: &Ret, extra: &[u32]| -> bool {
        let args = key_args(k);
        let vs = versions.get(&(fi, k)).cloned().unwrap_or_default();
        vs.iter().chain(extra.iter()).any(|v| Ret::Str(twin_value(d, None, &args, *v)) == *ret)
    };
    let listing = list_keys(d.cache_name)?;
    if let Some(n) = d.limit {
        if listing.len() > n {
            return Some(("bound-at-quiescence".into(), format!("at most {} entries once all callers returned", n), format!("{:?}", listing)));
        }
    }
    // every listed entry is a real one: calling it returns a correct value
    let mut total_fp = 0usize;
    let mut ver = 5000u32;
    for key in &listing {
        let Some(&k) = key_index.get(key) else {
            return Some(("foreign-key".into(), "only keys of calls made".into(), format!("{:?}", key)));
        };
        ver += 1;
        let (ret, ex) = plain_call(corpus, d, k, ver);
        if !allowed(k, &ret, &[ver]) {
            return Some(("value-after-quiescence".into(), format!("a value of {} for key {:?}", d.fn_name, key), format!("{:?}", ret)));
        }
        if ex == 0 {
            total_fp += ret_fp(&ret);
        }
    }
    if let Some(m) = d.max_memory {
        let l2 = list_keys(d.cache_name).unwrap_or_default();
        if l2 == listing && total_fp > m {
            return Some(("memory-at-quiescence".into(), format!("at most {} bytes", m), format!("{} bytes over {:?}", total_fp, listing)));
        }
    }
    // fresh keys: the bound holds after each store; FIFO/LRU flush every old entry
    let before: BTreeSet<String> = list_keys(d.cache_name).unwrap_or_default();
    let need = d.limit.unwrap_or(2) + 1;
    let mut stored_fresh = 0usize;
    for j in 0..(need + 5) {
        if stored_fresh >= need {
            break;
        }
        let k = 20 + j as u8;
        ver += 1;
        let (ret, _) = plain_call(corpus, d, k, ver);
        if ret != Ret::Str(twin_value(d, None, &key_args(k), ver)) {
            return Some(("value-in-probe".into(), "twin value".into(), format!("{:?}", ret)));
        }
        let l = list_keys(d.cache_name).unwrap_or_default();
        if l.contains(&key_of(d, None, &key_args(k))) {
            // (a value larger than max_memory is rejected and does not count)
            stored_fresh += 1;
        }
        if let Some(n) = d.limit {
            if l.len() > n {
                return Some(("bound-in-probe".into(), format!("at most {} entries after a sequential store", n), format!("{:?}", l)));
            }
        }
    }
    // FIFO / LRU evict oldest-first, under entry and memory pressure alike: once limit + 1 fresh
    // keys have been stored, at most `limit` entries remain and they are all newer than `before`
    if matches!(d.effective_policy(), Policy::Fifo | Policy::Lru) && d.limit.is_some() && stored_fresh >= need {
        let l = list_keys(d.cache_name).unwrap_or_default();
        let stuck: Vec<&String> = l.iter().filter(|k| before.contains(*k)).collect();
        if !stuck.is_empty() {
            return Some(("unevictable".into(), format!("{} fresh stores flush every older entry under {:?}", stored_fresh, d.effective_policy()), format!("still cached: {:?}", stuck)));
        }
    }
    // expiry
    if let Some(t) = d.ttl {
        vrt::clock::advance_ns((t as i64 + 1) * crate::model::SEC);
        for key in list_keys(d.cache_name).unwrap_or_default() {
            if let Some(&k) = key_index.get(&key) {
                ver += 1;
                let (_, ex) = plain_call(corpus, d, k, ver);
                if ex == 0 {
                    return Some(("unexpirable".into(), format!("{:?} recomputed after ttl", key), "served from the cache".into()));
                }
            }
        }
    }
    // invalidation
    let l = list_keys(d.cache_name).unwrap_or_default();
    let set = l.clone();
    let _ = cachelito_core::invalidate_with(d.cache_name, move |k: &str| set.contains(k));
    let l2 = list_keys(d.cache_name).unwrap_or_default();
    if !l2.is_empty() {
        return Some(("uninvalidatable".into(), "empty after invalidating every listed key".into(), format!("{:?}", l2)));
    }
    // refill: an entry that is stored but untracked shows up as a broken bound now
    for j in 0..(d.limit.unwrap_or(2) + 2) {
        let k = 40 + j as u8;
        ver += 1;
        let _ = plain_call(corpus, d, k, ver);
        let l = list_keys(d.cache_name).unwrap_or_default();
        if let Some(n) = d.limit {
            if l.len() > n {
                return Some(("bound-after-refill".into(), format!("at most {} entries", n), format!("{:?}", l)));
            }
        }
    }
    None
}

pub fn run_case(bytes: &[u8], focus: SF, tier: Tier) -> CaseOut {
    let case = decode(bytes, focus, tier);
    judge(&case, focus, None)
}

/// Run a case (random-schedule bytes, or explicit choices for the bounded-exhaustive search)
/// and apply the oracle of `focus`.
pub fn judge(case: &SchedCase, focus: SF, explicit: Option<bool>) -> CaseOut {
    let case = case.clone();
    let mut out = CaseOut { key: hash_of(&case), ..CaseOut::default() };
    let corpus = static_corpus();
    let descs: Vec<&'static FnDesc> = case.fns.iter().map(|id| corpus.by_id(*id)).collect();
    let run = match explicit {
        None => execute(&case, false),
        Some(excl_only) => execute_opts(&case, vsched::Opts { step_limit: 100_000, trace: false, explicit: true, cycle: false, excl_only: Some(excl_only) }),
    };
    out.aux = run.report.choices.iter().map(|(n, c, r)| format!("{}.{}.{}", n, c, if *r { 1 } else { 0 })).collect::<Vec<_>>().join(",");
    let rep = &run.report;
    let fl = flavour_name(descs[0]);
    out.classes.push(if descs[0].flavour == Flavour::Async { "flavour_async" } else { "flavour_global" });

    // overlap analysis
    let is_inv = |op: &SOp| matches!(op, SOp::InvWith { .. } | SOp::InvAll { .. } | SOp::Group { .. });
    let mut inv_overlaps_call = false;
    let mut same_cache_two_threads = false;
    for a in &run.recs {
        for b in &run.recs {
            if a.t == b.t {
                continue;
            }
            let overlap = a.start <= b.end && b.start <= a.end;
            if matches!(a.op, SOp::Call { .. }) {
                same_cache_two_threads = true;
                if is_inv(&b.op) && overlap && a.end > a.start {
                    inv_overlaps_call = true;
                }
            }
        }
    }
    let any_inv = run.recs.iter().any(|r| is_inv(&r.op)) || case.threads.iter().flatten().any(is_inv);
    if rep.preemptions_holding > 0 {
        out.classes.push("preempted_while_holding_lock");
    }
    if inv_overlaps_call {
        out.classes.push("invalidation_overlaps_call");
    }

    match &rep.outcome {
        vsched::Outcome::Deadlock(w) => {
            out.classes.push("deadlock");
            if focus == SF::C17 {
                out.violation = Some(Violation {
                    signature: format!("C17:{}:deadlock", fl),
                    clause: "deadlock".into(),
                    step: rep.steps as usize,
                    expected: "every thread returns".into(),
                    observed: format!("no runnable thread: waiting (thread, lock, mode) = {:?}; lock-order edges {:?}", w, rep.lock_order_edges),
                });
            } else {
                out.aborted_foreign = true;
            }
            vrt::clock::unfreeze();
            return out;
        }
        vsched::Outcome::StepLimit => {
            out.classes.push("step_limit");
            out.aborted_foreign = true;
            vrt::clock::unfreeze();
            return out;
        }
        vsched::Outcome::Completed => {}
    }
    if rep.panics.iter().any(|p| p.is_some()) {
        out.aborted_foreign = true;
        out.classes.push("aborted_by_panic");
        vrt::clock::unfreeze();
        return out;
    }

    match focus {
        SF::C17 => {
            out.nontrivial = same_cache_two_threads && any_inv && rep.preemptions_holding > 0;
        }
        SF::C18 => {
            out.nontrivial = inv_overlaps_call;
            // (1) values inside the threads
            'v: for r in &run.recs {
                if let (SOp::Call { f, k }, Some(ret)) = (&r.op, &r.ret) {
                    let fi = *f as usize % descs.len();
                    let d = descs[fi];
                    let args = key_args(*k);
                    let vs = run.versions.get(&(fi as u8, *k)).cloned().unwrap_or_default();
                    let ok = if r.executed > 0 { *ret == Ret::Str(twin_value(d, None, &args, r.version)) } else { vs.iter().any(|v| Ret::Str(twin_value(d, None, &args, *v)) == *ret) };
                    if !ok {
                        out.violation = Some(Violation {
                            signature: format!("C18:{}:{}:value-in-thread", fl, d.effective_policy().name()),
                            clause: "value-in-thread".into(),
                            step: r.i,
                            expected: format!("thread {} call {}({:?}): the function's value for its own arguments", r.t, d.fn_name, args),
                            observed: format!("{:?}", ret),
                        });
                        break 'v;
                    }
                }
            }
            // (2)+(3) quiescence and probe
            if out.violation.is_none() {
                for (fi, d) in descs.iter().enumerate() {
                    if let Some((clause, exp, obs)) = probe(&corpus, d, fi as u8, &run.versions) {
                        out.violation = Some(Violation { signature: format!("C18:{}:{}:{}", fl, d.effective_policy().name(), clause), clause, step: 0, expected: format!("[{} ({})] {}", d.fn_name, d.attr_text, exp), observed: obs });
                        break;
                    }
                }
            }
        }
        SF::C14 => {
            // global / async scope shares: a value stored by the (sequential) prefix thread is
            // served to every scheduled thread, whatever the interleaving of their lookups
            let mut shared_lookups = 0;
            for r in &run.recs {
                if let SOp::Call { f, k } = &r.op {
                    let fi = *f as usize % descs.len();
                    if case.prefix.iter().any(|(pf, pk)| *pf as usize % descs.len() == fi && pk == k) {
                        shared_lookups += 1;
                        if r.executed > 0 && out.violation.is_none() {
                            out.violation = Some(Violation {
                                signature: format!("C14:{}:not-shared", fl),
                                clause: "not-shared".into(),
                                step: r.i,
                                expected: format!("{}: thread {} is served the value the prefix thread stored for key index {}", descs[fi].fn_name, r.t, k),
                                observed: "the body ran in that thread".into(),
                            });
                        }
                    }
                }
            }
            let threads_sharing: BTreeSet<usize> = run.recs.iter().filter(|r| matches!(&r.op, SOp::Call { f, k } if case.prefix.iter().any(|(pf, pk)| pf == f && pk == k))).map(|r| r.t).collect();
            out.nontrivial = threads_sharing.len() >= 2;
            if out.nontrivial {
                out.classes.push("two_threads_read_prefix_value");
            }
            let _ = shared_lookups;
        }
        SF::C03 => {
            // a call that starts after an executing call for the same tuple has returned must hit
            let mut overlapping_same = false;
            for a in &run.recs {
                let SOp::Call { f: fa, k: ka } = &a.op else { continue };
                for b in &run.recs {
                    let SOp::Call { f: fb, k: kb } = &b.op else { continue };
                    if (a.t, a.i) == (b.t, b.i) || fa != fb || ka != kb {
                        continue;
                    }
                    if a.t != b.t && a.start <= b.end && b.start <= a.end {
                        overlapping_same = true;
                    }
                    if a.executed > 0 && a.end < b.start && b.executed > 0 {
                        let d = descs[*fa as usize % descs.len()];
                        out.violation = Some(Violation {
                            signature: format!("C03:{}:recomputed-after-store", fl),
                            clause: "recomputed-after-store".into(),
                            step: b.i,
                            expected: format!("{}: thread {} call #{} started (t={}) after thread {} call #{} had stored the result and returned (t={}): served from the cache", d.fn_name, b.t, b.i, b.start, a.t, a.i, a.end),
                            observed: "the body ran again".into(),
                        });
                    }
                }
            }
            // prefix calls count as completed stores
            if out.violation.is_none() {
                for r in &run.recs {
                    if let SOp::Call { f, k } = &r.op {
                        let fi = *f as usize % descs.len();
                        if r.executed > 0 && case.prefix.iter().any(|(pf, pk)| *pf as usize % descs.len() == fi && pk == k) {
                            out.violation = Some(Violation {
                                signature: format!("C03:{}:recomputed-after-store", fl),
                                clause: "recomputed-after-store".into(),
                                step: r.i,
                                expected: format!("{}: the tuple was computed and stored before the threads started", descs[fi].fn_name),
                                observed: "the body ran again".into(),
                            });
                        }
                    }
                }
            }
            out.nontrivial = overlapping_same || run.recs.iter().any(|r| matches!(r.op, SOp::Call { .. }) && r.executed == 0);
            if overlapping_same {
                out.classes.push("same_tuple_calls_overlap");
            }
        }
        SF::C07 => {
            let d = descs[0];
            let key_of_idx = |k: u8| key_of(d, None, &key_args(k));
            let hit_key = run.recs.iter().find_map(|r| match &r.op {
                SOp::Call { k, .. } if *k < 2 => Some(*k),
                _ => None,
            });
            let clean = run.recs.iter().all(|r| match &r.op {
                SOp::Call { k, .. } if *k < 2 => r.executed == 0,
                SOp::Call { .. } => r.executed == 1,
                _ => true,
            });
            let before = list_keys(d.cache_name);
            let want: BTreeSet<String> = [0u8, 1, 2].iter().map(|k| key_of_idx(*k)).collect();
            if let (Some(h), true, true) = (hit_key, clean, before.as_ref() == Some(&want)) {
                let lru = d.effective_policy() == Policy::Lru;
                // the prefix key that was not touched by the threads was last used before them
                let expected_victim = if lru { 1 - h } else { 0 };
                // without the concurrent hit the victim would have been another entry
                let last_prefix_use = |k: u8| case.prefix.iter().rposition(|(_, pk)| *pk == k).unwrap_or(0);
                let lru_before = if last_prefix_use(0) < last_prefix_use(1) { 0u8 } else { 1 };
                out.nontrivial = lru && lru_before == h;
                if out.nontrivial {
                    out.classes.push("concurrent_hit_changes_the_victim");
                }
                let (_, ex) = plain_call(&corpus, d, 60, 9000);
                let after = list_keys(d.cache_name).unwrap_or_default();
                if ex == 1 && after.contains(&key_of_idx(60)) {
                    let evicted: Vec<u8> = [0u8, 1, 2].iter().copied().filter(|k| !after.contains(&key_of_idx(*k))).collect();
                    if let [v] = evicted[..] {
                        if v != expected_victim {
                            out.violation = Some(Violation {
                                signature: format!("C07:{}:{}:concurrent-recency", fl, d.effective_policy().name()),
                                clause: "concurrent-recency".into(),
                                step: 0,
                                expected: format!(
                                    "{} ({}): prefix {:?}, then a thread hit key index {} while another stored key index 2: key index {} is the {} entry under every interleaving and is evicted by the next overflowing store",
                                    d.fn_name,
                                    d.attr_text,
                                    case.prefix.iter().map(|(_, k)| *k).collect::<Vec<_>>(),
                                    h,
                                    expected_victim,
                                    if lru { "least recently used" } else { "oldest" }
                                ),
                                observed: format!("key index {} was evicted; the cache holds {:?}", v, after),
                            });
                        }
                    }
                }
            } else {
                out.classes.push("concurrent_phase_changed_the_store");
            }
        }
        SF::C08 => {
            let d = descs[0];
            let cap = d.limit.unwrap_or(2);
            // true number of successful lookups per key index since its (only) store
            let mut hits: BTreeMap<u8, u64> = BTreeMap::new();
            let mut seen: BTreeSet<u8> = BTreeSet::new();
            for (_, k) in &case.prefix {
                if !seen.insert(*k) {
                    *hits.entry(*k).or_default() += 1;
                }
            }
            let mut recomputed = false;
            let mut threads_on: BTreeMap<u8, BTreeSet<usize>> = BTreeMap::new();
            for r in &run.recs {
                if let SOp::Call { k, .. } = &r.op {
                    if r.executed > 0 {
                        recomputed = true;
                    }
                    *hits.entry(*k).or_default() += 1;
                    threads_on.entry(*k).or_default().insert(r.t);
                }
            }
            let key_of_idx = |k: u8| key_of(d, None, &key_args(k));
            let before = list_keys(d.cache_name);
            let residents: BTreeSet<String> = seen.iter().map(|k| key_of_idx(*k)).collect();
            if recomputed || before.as_ref() != Some(&residents) || seen.len() != cap {
                // something was evicted or recomputed during the concurrent phase: other checks' business
                out.classes.push("concurrent_phase_changed_the_store");
            } else {
                let fresh = 60u8;
                let (_, ex) = plain_call(&corpus, d, fresh, 9000);
                let after = list_keys(d.cache_name).unwrap_or_default();
                let fresh_key = key_of_idx(fresh);
                let h = |k: u8| hits.get(&k).copied().unwrap_or(0);
                let contested: Vec<u8> = threads_on.iter().filter(|(_, ts)| ts.len() >= 2).map(|(k, _)| *k).collect();
                // a lost update could matter: some contested key has strictly more hits than
                // another resident, by less than its number of concurrent hits
                out.nontrivial = contested.iter().any(|c| seen.iter().any(|o| o != c && h(*c) > h(*o) && h(*o) > 0));
                if out.nontrivial {
                    out.classes.push("contested_hits_decide_the_victim");
                }
                if ex == 1 && after.contains(&fresh_key) {
                    let evicted: Vec<u8> = seen.iter().copied().filter(|k| !after.contains(&key_of_idx(*k))).collect();
                    if let [v] = evicted[..] {
                        let min = seen.iter().map(|k| h(*k)).min().unwrap_or(0);
                        if h(v) > min {
                            out.violation = Some(Violation {
                                signature: format!("C08:{}:lfu:concurrent-hits", fl),
                                clause: "concurrent-hits".into(),
                                step: 0,
                                expected: format!(
                                    "{} ({}): the overflowing store evicts an entry with the fewest successful lookups; lookups served per key index: {:?}",
                                    d.fn_name,
                                    d.attr_text,
                                    seen.iter().map(|k| (*k, h(*k))).collect::<Vec<_>>()
                                ),
                                observed: format!("key index {} ({} successful lookups) was evicted; the cache holds {:?}", v, h(v), after),
                            });
                        }
                    }
                }
            }
        }
        SF::C15 => {
            out.nontrivial = same_cache_two_threads;
            for (fi, d) in descs.iter().enumerate() {
                let calls = run.calls_total.get(&(fi as u8)).copied().unwrap_or(0);
                let execs: u64 = run.recs.iter().filter(|r| matches!(&r.op, SOp::Call { f, .. } if *f as usize % descs.len() == fi)).map(|r| r.executed as u64).sum::<u64>()
                    + run.prefix_execs.get(&(fi as u8)).copied().unwrap_or(0);
                if let Some((h, m)) = stats_of(d.cache_name) {
                    if h + m != calls || m != execs {
                        out.violation = Some(Violation {
                            signature: format!("C15:{}:concurrent-stats", fl),
                            clause: "concurrent-stats".into(),
                            step: 0,
                            expected: format!("{}: hits + misses = {} lookups and misses = {} executions", d.cache_name, calls, execs),
                            observed: format!("hits {} misses {}", h, m),
                        });
                    }
                }
            }
        }
    }
    vrt::clock::unfreeze();
    out
}

macro_rules! sf_fns {
    ($run:ident, $desc:ident, $f:expr) => {
        pub fn $run(b: &[u8], t: Tier) -> CaseOut {
            run_case(b, $f, t)
        }
        pub fn $desc(b: &[u8], t: Tier) -> Value {
            describe(b, $f, t)
        }
    };
}
sf_fns!(run_c17, desc_c17, SF::C17);
sf_fns!(run_c18, desc_c18, SF::C18);
sf_fns!(run_c03, desc_c03, SF::C03);
sf_fns!(run_c15, desc_c15, SF::C15);
sf_fns!(run_c14, desc_c14, SF::C14);
sf_fns!(run_c08, desc_c08, SF::C08);
sf_fns!(run_c07, desc_c07, SF::C07);

pub const SCHED_LEN: usize = 40 + 160;

// ---------------------------------------------------------------------------------------
// Bounded-exhaustive schedule enumeration for canonical two-thread programs
// ---------------------------------------------------------------------------------------

pub fn canonical_programs(tier: Tier) -> Vec<(String, SchedCase)> {
    let corpus = static_corpus();
    let mut v = Vec::new();
    let conc: Vec<&FnDesc> = corpus.funcs.iter().filter(|d| d.family == "conc").collect();
    let pick = |fl: Flavour, p: Policy, ttl: bool, mem: bool| -> Option<&FnDesc> { conc.iter().copied().find(|d| d.flavour == fl && d.effective_policy() == p && d.ttl.is_some() == ttl && d.max_memory.is_some() == mem) };
    let policies: Vec<Policy> = match tier {
        Tier::Quick => vec![Policy::Fifo, Policy::Lru, Policy::Random],
        Tier::Thorough => Policy::ALL.to_vec(),
    };
    for fl in [Flavour::Global, Flavour::Async] {
        for &p in &policies {
            let fln = if fl == Flavour::Global { "sync" } else { "async" };
            if let Some(d) = pick(fl, p, false, false) {
                let tag = d.tags[0].to_string();
                let mk = |name: &str, prefix: Vec<(u8, u8)>, age: i64, threads: Vec<Vec<SOp>>| (format!("{}:{}:{}", fln, p.name(), name), SchedCase { fns: vec![d.id], prefix, age_prefix_ns: age, threads, decisions: vec![] });
                v.push(mk("evicting-stores||invalidate_with", vec![(0, 0), (0, 1)], 0, vec![vec![SOp::Call { f: 0, k: 2 }, SOp::Call { f: 0, k: 3 }], vec![SOp::InvWith { f: 0, mask: 0xff }]]));
                v.push(mk("stores||by-tag", vec![(0, 0)], 0, vec![vec![SOp::Call { f: 0, k: 1 }, SOp::Call { f: 0, k: 2 }], vec![SOp::Group { kind: 't', s: tag.clone() }]]));
                v.push(mk("stores||invalidate_all_with", vec![(0, 0), (0, 1)], 0, vec![vec![SOp::Call { f: 0, k: 2 }], vec![SOp::InvAll { mask: 0x05 }]]));
                v.push(mk("store+hit||by-name+store", vec![(0, 0)], 0, vec![vec![SOp::Call { f: 0, k: 0 }, SOp::Call { f: 0, k: 1 }], vec![SOp::Group { kind: 'n', s: d.cache_name.to_string() }, SOp::Call { f: 0, k: 2 }]]));
                v.push(mk("store||stats", vec![(0, 0), (0, 1)], 0, vec![vec![SOp::Call { f: 0, k: 2 }], vec![SOp::StatsReset { f: 0 }, SOp::StatsGet { f: 0 }, SOp::StatsList]]));
            }
            if let Some(d) = pick(fl, p, true, false) {
                let t = d.ttl.unwrap() as i64 * crate::model::SEC;
                let mk = |name: &str, prefix: Vec<(u8, u8)>, age: i64, threads: Vec<Vec<SOp>>| (format!("{}:{}:{}", fln, p.name(), name), SchedCase { fns: vec![d.id], prefix, age_prefix_ns: age, threads, decisions: vec![] });
                v.push(mk("expired-same-key||expired-same-key", vec![(0, 0), (0, 1)], t, vec![vec![SOp::Call { f: 0, k: 0 }], vec![SOp::Call { f: 0, k: 0 }]]));
                v.push(mk("expired-key||expired-other-key+store", vec![(0, 0), (0, 1)], t, vec![vec![SOp::Call { f: 0, k: 0 }, SOp::Call { f: 0, k: 2 }], vec![SOp::Call { f: 0, k: 1 }]]));
                for (i, ks) in [[2u8, 3], [3, 4], [2, 4], [4, 2]].iter().enumerate() {
                    v.push(mk(&format!("expired-key||expired-key+overflowing-stores#{}", i), vec![(0, 0), (0, 1)], t, vec![vec![SOp::Call { f: 0, k: 0 }], vec![SOp::Call { f: 0, k: 1 }, SOp::Call { f: 0, k: ks[0] }, SOp::Call { f: 0, k: ks[1] }]]));
                }
                v.push(mk("expired-key||invalidate_with", vec![(0, 0), (0, 1)], t, vec![vec![SOp::Call { f: 0, k: 0 }], vec![SOp::InvWith { f: 0, mask: 0x03 }, SOp::Call { f: 0, k: 1 }]]));
            }
            if let Some(d) = pick(fl, p, false, true) {
                let tag = d.tags[0].to_string();
                let mk = |name: &str, prefix: Vec<(u8, u8)>, age: i64, threads: Vec<Vec<SOp>>| (format!("{}:{}:{}", fln, p.name(), name), SchedCase { fns: vec![d.id], prefix, age_prefix_ns: age, threads, decisions: vec![] });
                v.push(mk("memory-stores||by-tag", vec![(0, 0)], 0, vec![vec![SOp::Call { f: 0, k: 1 }, SOp::Call { f: 0, k: 2 }], vec![SOp::Group { kind: 't', s: tag.clone() }]]));
            }
        }
    }
    v
}

/// Depth-first enumeration of all schedules of `base` with at most `bound` preemptions
/// (decisions at exclusive acquisitions only when `excl_only`).  Returns
/// (runs, nontrivial keys, first violation, truncated).
pub fn enumerate(base: &SchedCase, focus: SF, bound: usize, excl_only: bool, max_runs: usize) -> (u64, Vec<u64>, Option<(Violation, Vec<u8>)>, bool) {
    let mut stack: Vec<(Vec<u8>, usize)> = vec![(Vec::new(), 0)];
    let mut runs = 0u64;
    let mut keys = Vec::new();
    let mut truncated = false;
    while let Some((prefix, used)) = stack.pop() {
        if runs as usize >= max_runs {
            truncated = true;
            break;
        }
        let mut case = base.clone();
        case.decisions = prefix.clone();
        let c2 = case.clone();
        let out = crate::infra::run_forked(move || judge(&c2, focus, Some(excl_only)));
        runs += 1;
        if out.nontrivial {
            keys.push(out.key);
        }
        if let Some(v) = out.violation {
            return (runs, keys, Some((v, prefix)), truncated);
        }
        let choices: Vec<(usize, usize, bool)> = out
            .aux
            .split(',')
            .filter(|s| !s.is_empty())
            .filter_map(|s| {
                let mut it = s.split('.');
                Some((it.next()?.parse().ok()?, it.next()?.parse().ok()?, it.next()? == "1"))
            })
            .collect();
        // branch on every decision after the forced prefix
        let mut used_here = used;
        // recount preemptions inside the prefix part is `used`; extend beyond it
        for (i, (n_alt, chosen, me_runnable)) in choices.iter().enumerate() {
            if i < prefix.len() {
                continue;
            }
            for alt in 0..*n_alt {
                if alt == *chosen {
                    continue;
                }
                let is_preempt = *me_runnable && alt != 0;
                let cost = if is_preempt { 1 } else { 0 };
                if used_here + cost > bound {
                    continue;
                }
                let mut p2: Vec<u8> = choices[..i].iter().map(|c| c.1 as u8).collect();
                p2.push(alt as u8);
                stack.push((p2, used_here + cost));
            }
            if *me_runnable && *chosen != 0 {
                used_here += 1;
            }
        }
    }
    (runs, keys, None, truncated)
}

/// Canonical programs for the concurrent clauses of C03 / C14 / C15: unbounded functions,
/// two threads looking the same tuples up, with and without a value stored beforehand.
pub fn canonical_lookup_programs(focus: SF) -> Vec<(String, SchedCase)> {
    let corpus = static_corpus();
    let mut v = Vec::new();
    let fams: &[&str] = if focus == SF::C15 { &["concu", "conc"] } else { &["concu"] };
    for d in corpus.funcs.iter().filter(|d| fams.contains(&d.family) && (d.family == "concu" || (d.ttl.is_none() && d.max_memory.is_none() && matches!(d.effective_policy(), Policy::Lru | Policy::Lfu)))) {
        let fln = if d.flavour == Flavour::Global { "sync" } else { "async" };
        let mk = |name: &str, prefix: Vec<(u8, u8)>, threads: Vec<Vec<SOp>>| (format!("{}:{}:{}", fln, d.fn_name, name), SchedCase { fns: vec![d.id], prefix, age_prefix_ns: 0, threads, decisions: vec![] });
        let c = |k: u8| SOp::Call { f: 0, k };
        v.push(mk("both-miss-then-again", vec![], vec![vec![c(0), c(0)], vec![c(0), c(0)]]));
        v.push(mk("stored-before||two-readers", vec![(0, 0)], vec![vec![c(0), c(1)], vec![c(0), c(1)]]));
        v.push(mk("miss||miss+other+again", vec![], vec![vec![c(0)], vec![c(0), c(1), c(0)]]));
        if focus == SF::C15 {
            v.push(mk("calls||stats-get", vec![(0, 0)], vec![vec![c(0), c(1)], vec![SOp::StatsGet { f: 0 }, c(0), SOp::StatsList]]));
        }
    }
    v
}

pub fn exhaustive_stage(focus: SF, tier: Tier, _seed: u64) -> crate::infra::CustomOut {
    let mut out = crate::infra::CustomOut::default();
    let progs = if matches!(focus, SF::C17 | SF::C18) {
        canonical_programs(tier)
    } else if focus == SF::C08 {
        canonical_hit_programs()
    } else if focus == SF::C07 {
        canonical_recency_programs()
    } else {
        canonical_lookup_programs(focus)
    };
    // preemption bounds: (sync programs, async programs); async stores touch ~10x more locks
    let (bound_sync, bound_async, max_runs, n_threads) = match tier {
        Tier::Quick => (2usize, 1usize, 2_000usize, 8usize),
        Tier::Thorough => (3, 2, 120_000, 16),
    };
    let id = match focus {
        SF::C17 => "C17",
        SF::C18 => "C18",
        SF::C03 => "C03",
        SF::C15 => "C15",
        SF::C14 => "C14",
        SF::C08 => "C08",
        SF::C07 => "C07",
    };
    // spread programs over worker threads (each run is a forked child)
    let progs = Arc::new(progs);
    let next = Arc::new(std::sync::atomic::AtomicUsize::new(0));
    let results: Arc<Mutex<Vec<(String, u64, Vec<u64>, Option<(Violation, Vec<u8>)>, bool)>>> = Arc::new(Mutex::new(Vec::new()));
    // Forking from a multi-threaded process: a child inherits every lock some *other* thread
    // holds at that instant, forever.  The standard library takes a process-wide mutex while a
    // thread starts and while it exits (stack-overflow handler bookkeeping); a child forked in
    // that window can never start a thread of its own (root cause of F10).  So no fork happens
    // before every worker thread has started, and no worker exits before all forks are done.
    let started = Arc::new(std::sync::Barrier::new(n_threads));
    let done = Arc::new(std::sync::Barrier::new(n_threads));
    let mut hs = Vec::new();
    for _ in 0..n_threads {
        let progs = progs.clone();
        let next = next.clone();
        let results = results.clone();
        let (started, done) = (started.clone(), done.clone());
        hs.push(std::thread::spawn(move || {
            started.wait();
            loop {
                let i = next.fetch_add(1, std::sync::atomic::Ordering::SeqCst);
                if i >= progs.len() {
                    break;
                }
                let (name, case) = &progs[i];
                let bound = if name.starts_with("sync") { bound_sync } else { bound_async };
                let (runs, keys, viol, trunc) = enumerate(case, focus, bound, true, max_runs);
                results.lock().unwrap().push((name.clone(), runs, keys, viol, trunc));
            }
            done.wait();
        }));
    }
    for h in hs {
        let _ = h.join();
    }
    let results = results.lock().unwrap();
    let mut per_prog = serde_json::Map::new();
    let mut all_complete = true;
    for (name, runs, keys, viol, trunc) in results.iter() {
        out.evaluations += runs;
        out.nontrivial_keys.extend(keys.iter().map(|k| k ^ crate::infra::str_hash(name)));
        per_prog.insert(name.clone(), json!({"schedules": runs, "complete": !trunc}));
        if *trunc {
            all_complete = false;
        }
        if let Some((v, decisions)) = viol {
            let case = progs.iter().find(|(n, _)| n == name).map(|(_, c)| {
                let mut c = c.clone();
                c.decisions = decisions.clone();
                c
            });
            out.violations.push((
                Violation { signature: format!("{}:exhaustive", v.signature), ..v.clone() },
                json!({"program": name, "explicit_choices": decisions, "case": case.map(|c| serde_json::to_value(&c).unwrap_or(Value::Null)), "replay_hint": format!("cv sched-explicit {} '{}' {}", id, name, decisions.iter().map(|b| b.to_string()).collect::<Vec<_>>().join(","))}),
            ));
        }
    }
    *out.classes.entry("exhaustive:schedules".into()).or_insert(0) += out.evaluations;
    out.extra.insert(
        "bounded_exhaustive".into(),
        json!({"preemption_bound": {"sync_programs": bound_sync, "async_programs": bound_async}, "decision_points": "exclusive lock acquisitions and releases (mutex / write locks) and blocked / finished threads", "programs": per_prog, "exhaustive": all_complete, "max_schedules_per_program": max_runs}),
    );
    if let Some((name, c)) = progs.first() {
        out.samples.push(json!({"part": "exhaustive", "program": name, "case": serde_json::to_value(c).unwrap_or(Value::Null)}));
    }
    out
}

pub fn exhaustive_c17(t: Tier, s: u64) -> crate::infra::CustomOut {
    exhaustive_stage(SF::C17, t, s)
}
pub fn exhaustive_c18(t: Tier, s: u64) -> crate::infra::CustomOut {
    exhaustive_stage(SF::C18, t, s)
}
pub fn exhaustive_c03(t: Tier, s: u64) -> crate::infra::CustomOut {
    exhaustive_stage(SF::C03, t, s)
}
pub fn exhaustive_c14(t: Tier, s: u64) -> crate::infra::CustomOut {
    exhaustive_stage(SF::C14, t, s)
}
pub fn exhaustive_c07(t: Tier, s: u64) -> crate::infra::CustomOut {
    exhaustive_stage(SF::C07, t, s)
}

/// Canonical programs for C07 under concurrency (limit 3): k0, k1 stored; a hit of k0 (or k1)
/// against a store of k2.
pub fn canonical_recency_programs() -> Vec<(String, SchedCase)> {
    let corpus = static_corpus();
    let mut v = Vec::new();
    for id in conc_candidates(SF::C07) {
        let d = corpus.by_id(*id);
        let fln = if d.flavour == Flavour::Global { "sync" } else { "async" };
        let c = |k: u8| SOp::Call { f: 0, k };
        let mk = |name: &str, prefix: Vec<(u8, u8)>, threads: Vec<Vec<SOp>>| (format!("{}:{}:{}", fln, d.fn_name, name), SchedCase { fns: vec![d.id], prefix, age_prefix_ns: 0, threads, decisions: vec![] });
        v.push(mk("hit-oldest||store", vec![(0, 0), (0, 1)], vec![vec![c(0)], vec![c(2)]]));
        v.push(mk("store||hit-newer-after-oldest-was-hit", vec![(0, 0), (0, 1), (0, 0)], vec![vec![c(2)], vec![c(1), c(1)]]));
    }
    v
}

pub fn exhaustive_c08(t: Tier, s: u64) -> crate::infra::CustomOut {
    exhaustive_stage(SF::C08, t, s)
}

/// Canonical programs for C08 under concurrency: key 1 has three exact hits, two threads hit
/// key 0 twice each (and a variant with one hit each against a single hit of key 1).
pub fn canonical_hit_programs() -> Vec<(String, SchedCase)> {
    let corpus = static_corpus();
    let mut v = Vec::new();
    for id in conc_candidates(SF::C08) {
        let d = corpus.by_id(*id);
        if d.limit != Some(2) {
            continue;
        }
        let c = |k: u8| SOp::Call { f: 0, k };
        let mk = |name: &str, prefix: Vec<(u8, u8)>, threads: Vec<Vec<SOp>>| (format!("async:{}:{}", d.fn_name, name), SchedCase { fns: vec![d.id], prefix, age_prefix_ns: 0, threads, decisions: vec![] });
        v.push(mk("two-hits||two-hits-vs-three", vec![(0, 0), (0, 1), (0, 1), (0, 1), (0, 1)], vec![vec![c(0), c(0)], vec![c(0), c(0)]]));
        v.push(mk("one-hit||one-hit-vs-one", vec![(0, 0), (0, 1), (0, 1)], vec![vec![c(0)], vec![c(0)]]));
    }
    v
}

pub fn exhaustive_c15(t: Tier, s: u64) -> crate::infra::CustomOut {
    exhaustive_stage(SF::C15, t, s)
}

// ---------------------------------------------------------------------------------------
// Layer-1 scheduled part: the core engines over harness-owned storage
// ---------------------------------------------------------------------------------------

#[derive(Clone, Debug, Hash, PartialEq, Serialize, Deserialize)]
pub enum COp {
    Get { k: u8 },
    Put { k: u8 },
    Clear,
}

#[derive(Clone, Debug, Hash, PartialEq, Serialize, Deserialize)]
pub struct CoreSchedCase {
    pub is_async: bool,
    pub policy: u8,
    pub limit: usize,
    pub ttl: Option<u64>,
    pub prefix: Vec<u8>,
    pub age_ns: i64,
    pub threads: Vec<Vec<COp>>,
    pub decisions: Vec<u8>,
}

pub fn decode_core(bytes: &[u8], tier: Tier) -> CoreSchedCase {
    let mut d = Dec::new(bytes);
    let is_async = d.chance(1, 2);
    let policy = d.choose(6) as u8;
    let limit = 1 + d.choose(3);
    let ttl = if d.chance(1, 3) { Some(1 + d.choose(2) as u64) } else { None };
    let n_prefix = d.choose(limit + 2);
    let prefix: Vec<u8> = (0..n_prefix).map(|_| d.choose(4) as u8).collect();
    let age_ns = match (ttl, d.choose(3)) {
        (Some(t), 1) | (Some(t), 2) => t as i64 * crate::model::SEC,
        _ => 0,
    };
    let nt = if tier == Tier::Thorough && d.chance(1, 3) { 3 } else { 2 };
    let mut threads = Vec::new();
    for _ in 0..nt {
        let n = 1 + d.choose(4);
        let ops = (0..n)
            .map(|_| match d.weighted(&[4, 7, if is_async { 0 } else { 3 }]) {
                0 => COp::Get { k: d.choose(5) as u8 },
                1 => COp::Put { k: d.choose(5) as u8 },
                _ => COp::Clear,
            })
            .collect();
        threads.push(ops);
    }
    CoreSchedCase { is_async, policy, limit, ttl, prefix, age_ns, threads, decisions: d.rest().to_vec() }
}

pub fn desc_core(bytes: &[u8], tier: Tier) -> Value {
    let c = decode_core(bytes, tier);
    let mut v = serde_json::to_value(&c).unwrap_or(Value::Null);
    v["engine"] = json!(if c.is_async { "AsyncGlobalCache<String>" } else { "GlobalCache<String>" });
    v["policy_name"] = json!(Policy::ALL[c.policy as usize % 6].name());
    v["decisions"] = json!(c.decisions.iter().map(|b| format!("{:02x}", b)).collect::<String>());
    v
}

fn core_value(k: u8, ver: u32) -> String {
    format!("core-k{}-v{}", k, ver)
}

pub fn run_core(bytes: &[u8], focus: SF, tier: Tier) -> CaseOut {
    use crate::core_l1::{to_eviction, AsyncStore};
    use crate::vals::Stores;
    use cachelito_core::{AsyncGlobalCache, GlobalCache};
    let case = decode_core(bytes, tier);
    let mut out = CaseOut { key: hash_of(&case), ..CaseOut::default() };
    vrt::clock::freeze(0);
    crate::infra::install_panic_hook_once();
    let pol = Policy::ALL[case.policy as usize % 6];
    let (limit, ttl) = (Some(case.limit), case.ttl);
    // force the storage Lazies
    <String as Stores>::gmap().write().clear();
    <String as Stores>::gorder().lock().clear();
    <String as Stores>::gstats().reset();
    let astore: &'static AsyncStore<String> = Box::leak(Box::new(AsyncStore::new()));
    let is_async = case.is_async;
    let mk_g = move || GlobalCache::<String>::new(<String as Stores>::gmap(), <String as Stores>::gorder(), limit, None, to_eviction(pol), ttl, None, <String as Stores>::gstats());
    let mk_a = move || AsyncGlobalCache::<String>::new(&astore.map, &astore.order, limit, None, to_eviction(pol), ttl, None, &astore.stats);
    let key = |k: u8| crate::core_l1::l1_key(k);
    let mut ver = 0u32;
    fastrand::seed(out.key | 1);
    for k in &case.prefix {
        ver += 1;
        if is_async {
            mk_a().insert(&key(*k), core_value(*k, ver));
        } else {
            mk_g().insert(&key(*k), core_value(*k, ver));
        }
    }
    if case.age_ns > 0 {
        vrt::clock::advance_ns(case.age_ns);
    }
    let bad: Arc<Mutex<Option<(usize, usize, String)>>> = Arc::new(Mutex::new(None));
    let recs: Arc<Mutex<Vec<(usize, u64, u64, bool)>>> = Arc::new(Mutex::new(Vec::new()));
    let mut bodies: Vec<vsched::Body> = Vec::new();
    for (t, ops) in case.threads.iter().enumerate() {
        let ops = ops.clone();
        let bad = bad.clone();
        let recs = recs.clone();
        let seed = out.key ^ ((t as u64 + 1) << 40);
        bodies.push(Box::new(move || {
            fastrand::seed(seed | 1);
            for (i, op) in ops.iter().enumerate() {
                let start = vsched::now();
                match op {
                    COp::Get { k } => {
                        let got = if is_async { mk_a().get(&key(*k)) } else { mk_g().get(&key(*k)) };
                        if let Some(v) = got {
                            if !v.starts_with(&format!("core-k{}-v", k)) {
                                *bad.lock().unwrap() = Some((t, i, v));
                            }
                        }
                    }
                    COp::Put { k } => {
                        let v = core_value(*k, 1000 + t as u32 * 100 + i as u32);
                        if is_async {
                            mk_a().insert(&key(*k), v)
                        } else {
                            mk_g().insert(&key(*k), v)
                        }
                    }
                    COp::Clear => {
                        if !is_async {
                            mk_g().clear()
                        }
                    }
                }
                recs.lock().unwrap().push((t, start, vsched::now(), matches!(op, COp::Clear)));
            }
        }));
    }
    let rep = vsched::run(bodies, &case.decisions, vsched::Opts { step_limit: 100_000, trace: false, explicit: false, cycle: true, excl_only: None });
    let fl = if is_async { "async-core" } else { "sync-core" };
    out.classes.push(if is_async { "flavour_async" } else { "flavour_global" });
    if rep.preemptions_holding > 0 {
        out.classes.push("preempted_while_holding_lock");
    }
    let recs = recs.lock().unwrap().clone();
    let clear_overlaps = recs.iter().any(|a| a.3 && recs.iter().any(|b| b.0 != a.0 && !b.3 && a.1 <= b.2 && b.1 <= a.2));
    if clear_overlaps {
        out.classes.push("clear_overlaps_other_op");
    }
    match &rep.outcome {
        vsched::Outcome::Deadlock(w) => {
            if focus == SF::C17 {
                out.violation = Some(Violation { signature: format!("C17:{}:deadlock", fl), clause: "deadlock".into(), step: rep.steps as usize, expected: "every thread returns".into(), observed: format!("no runnable thread: waiting {:?}; lock-order edges {:?}", w, rep.lock_order_edges) });
            } else {
                out.aborted_foreign = true;
            }
            vrt::clock::unfreeze();
            return out;
        }
        vsched::Outcome::StepLimit => {
            out.aborted_foreign = true;
            vrt::clock::unfreeze();
            return out;
        }
        _ => {}
    }
    if rep.panics.iter().any(|p| p.is_some()) {
        out.aborted_foreign = true;
        vrt::clock::unfreeze();
        return out;
    }
    out.nontrivial = rep.preemptions_holding > 0 || clear_overlaps;
    if focus == SF::C18 {
        let snapshot = || -> (BTreeSet<String>, Vec<String>) {
            if is_async {
                (astore.map.iter().map(|r| r.key().clone()).collect(), astore.order.lock().iter().cloned().collect())
            } else {
                (<String as Stores>::gmap().read().keys().cloned().collect(), <String as Stores>::gorder().lock().iter().cloned().collect())
            }
        };
        let viol = |clause: &str, exp: String, obs: String| Violation { signature: format!("C18:{}:{}:{}", fl, pol.name(), clause), clause: clause.to_string(), step: 0, expected: exp, observed: obs };
        if let Some((t, i, v)) = bad.lock().unwrap().clone() {
            out.violation = Some(viol("value-in-thread", format!("thread {} op {}: a value stored for that key", t, i), v));
        }
        let (stored, queue) = snapshot();
        if out.violation.is_none() && stored.len() > case.limit {
            out.violation = Some(viol("bound-at-quiescence", format!("at most {} entries", case.limit), format!("{:?}", stored)));
        }
        let untracked: Vec<&String> = stored.iter().filter(|k| !queue.contains(k)).collect();
        if out.violation.is_none() && !untracked.is_empty() {
            out.violation = Some(viol("stored-untracked", "every stored key is in the eviction queue (queue keys missing from the store are tolerated)".into(), format!("stored {:?}, queue {:?}", stored, queue)));
        }
        // probe: fresh stores keep the bound; FIFO / LRU flush every older entry
        if out.violation.is_none() {
            for j in 0..(case.limit + 1) {
                let k = 5 + j as u8;
                if is_async {
                    mk_a().insert(&key(k), core_value(k, 9000))
                } else {
                    mk_g().insert(&key(k), core_value(k, 9000))
                }
                let (s2, _) = snapshot();
                if s2.len() > case.limit {
                    out.violation = Some(viol("bound-in-probe", format!("at most {} entries after a sequential store", case.limit), format!("{:?}", s2)));
                    break;
                }
            }
            if out.violation.is_none() && matches!(pol, Policy::Fifo | Policy::Lru) {
                let (s2, _) = snapshot();
                let stuck: Vec<&String> = s2.iter().filter(|k| stored.contains(*k)).collect();
                if !stuck.is_empty() {
                    out.violation = Some(viol("unevictable", "fresh stores flush every older entry".into(), format!("{:?}", stuck)));
                }
            }
        }
    }
    vrt::clock::unfreeze();
    out
}

pub fn run_core_c17(b: &[u8], t: Tier) -> CaseOut {
    run_core(b, SF::C17, t)
}
pub fn run_core_c18(b: &[u8], t: Tier) -> CaseOut {
    run_core(b, SF::C18, t)
}
