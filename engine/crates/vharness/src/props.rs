//! Registry: which generator/oracle parts decide which property.

use crate::core_l1 as l1;
use crate::infra::{Part, Property};

fn l1_part(name: &'static str, run: fn(&[u8], crate::infra::Tier) -> crate::infra::CaseOut, describe: fn(&[u8], crate::infra::Tier) -> serde_json::Value, quick: u64, thorough: u64, required: &'static [&'static str]) -> Part {
    Part {
        name,
        cases_quick: quick,
        cases_thorough: thorough,
        len_quick: l1::CORE_LEN_QUICK,
        len_thorough: l1::CORE_LEN_THOROUGH,
        run,
        describe,
        fresh_process: false,
        required_classes: required,
    }
}

const L1_ASSUME: &[&str] = &[
    "virtual clock: clock_gettime is interposed in the harness binary; ages are exact sums of generated advances",
    "the harness owns the store / order / DashMap statics of the core caches and reads them after every operation",
    "reference model (vharness::model) and footprint functions (vharness::vals) are trusted and unit-tested",
    "bounded: capacities 1..4, at most 9 keys, histories up to 41 (quick) / 61 (thorough) operations",
];

pub fn all() -> Vec<Property> {
    vec![
        Property {
            id: "C01",
            rule: "layer1: configuration from the full product flavour x policy x limit x ttl x max_memory x weight x value type and a history of get/put/put_result/advance/clear decoded from bytes; non-trivial = a hit is served after an earlier eviction, expiry or re-store and the case touches >= 2 keys; distinct = hash of the decoded case",
            assumptions: L1_ASSUME,
            parts: vec![l1_part("core", l1::run_c01, l1::desc_c01, 400_000, 8_000_000, &["hit_after_disturbance", "flavour_async", "flavour_thread", "flavour_global"])],
            custom: None,
        },
        Property {
            id: "C04",
            rule: "layer1: limit N in 1..4, key alphabet N+1..N+4, all policies x flavours, with/without ttl and max_memory; after every operation |store| <= N and the removed set is explainable by exactly one eviction per overflow; non-trivial = at least one overflowing store; distinct = hash of the decoded case",
            assumptions: L1_ASSUME,
            parts: vec![l1_part("core", l1::run_c04, l1::desc_c04, 400_000, 8_000_000, &["overflow", "flavour_async", "flavour_thread", "flavour_global"])],
            custom: None,
        },
        Property {
            id: "C05",
            rule: "layer1: max_memory M in {64..4096}, value sizes drawn relative to M (<<M, M/4, M/2, M-1, M, M+1, 2M) over 8 value types; after every store total footprint <= M, oversize values rejected without displacing others, removed set explainable by policy-ordered evictions that stop as soon as the total fits; estimate_memory() compared with the harness footprint for every stored value; non-trivial = a memory eviction, an oversize rejection or an exact fit happened",
            assumptions: L1_ASSUME,
            parts: vec![l1_part("core", l1::run_c05, l1::desc_c05, 400_000, 8_000_000, &["memory_pressure", "flavour_async", "flavour_thread", "flavour_global"])],
            custom: None,
        },
        Property {
            id: "C06",
            rule: "layer1: ttl T in 1..3, advances from {T-1s, T-1ns, T, T+1ns, T+1s, 250ms, ...}, realtime phase in {0, .25, .5, .999999999}s; sync: age >= T never served and purged, age < T served; async: age >= T never served and purged, age < T-1s served, in between either; non-trivial = lookup of a resident entry at an age within 1 s of T",
            assumptions: L1_ASSUME,
            parts: vec![l1_part("core", l1::run_c06, l1::desc_c06, 400_000, 8_000_000, &["near_ttl_boundary", "expiry", "flavour_async", "flavour_thread", "flavour_global"])],
            custom: None,
        },
        Property {
            id: "C07",
            rule: "layer1: FIFO and LRU only, limits 1..4 and/or memory limits; every eviction removes the entry with minimal store sequence (FIFO) / minimal use sequence (LRU); non-trivial = an eviction at which the FIFO victim and the LRU victim differ",
            assumptions: L1_ASSUME,
            parts: vec![l1_part("core", l1::run_c07, l1::desc_c07, 400_000, 8_000_000, &["fifo_lru_victims_differ", "memory_pressure", "overflow", "flavour_async", "flavour_thread", "flavour_global"])],
            custom: None,
        },
        Property {
            id: "C08",
            rule: "layer1: LFU/ARC/TLRU, capacities 1..4, ttl in {none,2,3,5}, frequency_weight in {none,0.1,0.3,1,1.5,3}, whole-second advances; the victim is among the minimisers of hits (LFU), hits x rank (ARC), hits^w x rank x remaining-lifetime (TLRU), rank 1 = least recently used, either competition convention, relative tolerance 1e-9; non-trivial = an eviction where the minimiser set is a proper subset of the candidates and not all candidates have zero hits",
            assumptions: L1_ASSUME,
            parts: vec![l1_part("core", l1::run_c08, l1::desc_c08, 400_000, 8_000_000, &["score_decides", "flavour_async", "flavour_thread", "flavour_global"])],
            custom: None,
        },
        Property {
            id: "C16",
            rule: "layer1 sweep: the cell (flavour x policy+weight x limit{none,1..4} x ttl{none,0,1,2,3} x max_memory{none,40,120,4096}) is selected by the first bytes over the complete table of 3300 cells, value type and history generated; catch_unwind around every operation; non-trivial = the case reached an overflow, a memory eviction or an expiry",
            assumptions: L1_ASSUME,
            parts: vec![l1_part("core", l1::run_c16, l1::desc_c16, 500_000, 8_000_000, &["overflow", "memory_pressure", "expiry", "flavour_async", "flavour_thread", "flavour_global"])],
            custom: None,
        },
    ]
}

pub fn find(id: &str) -> Option<Property> {
    all().into_iter().find(|p| p.id == id)
}
