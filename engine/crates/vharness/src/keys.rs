//! Harness-side rendering of cache keys as documented: the `Debug` rendering of every
//! argument (receiver first) joined by `|`.  Written independently of cachelito (std
//! formatting of primitives only), used to predict listings and to build predicates.

use vrt::{ArgVal, FnDesc, Receiver, Ty};

pub fn render(v: &ArgVal, ty: &Ty, out: &mut String) {
    use std::fmt::Write;
    match ty {
        Ty::U8 | Ty::U16 | Ty::U32 | Ty::U64 | Ty::U128 | Ty::Usize => {
            let _ = write!(out, "{}", v.as_u());
        }
        Ty::I8 | Ty::I16 | Ty::I32 | Ty::I64 | Ty::I128 | Ty::Isize => {
            let _ = write!(out, "{}", v.as_i());
        }
        Ty::F32 => {
            let _ = write!(out, "{:?}", v.as_f32());
        }
        Ty::F64 => {
            let _ = write!(out, "{:?}", v.as_f64());
        }
        Ty::Bool => {
            let _ = write!(out, "{:?}", v.as_bool());
        }
        Ty::Char => {
            let _ = write!(out, "{:?}", v.as_char());
        }
        Ty::String | Ty::StrRef => {
            let _ = write!(out, "{:?}", v.as_str());
        }
        Ty::Tup(ts) => {
            out.push('(');
            let vs = v.as_tup();
            for (i, (x, t)) in vs.iter().zip(ts.iter()).enumerate() {
                if i > 0 {
                    out.push_str(", ");
                }
                render(x, t, out);
            }
            if ts.len() == 1 {
                out.push(',');
            }
            out.push(')');
        }
        Ty::Opt(t) => match v.as_opt() {
            None => out.push_str("None"),
            Some(x) => {
                out.push_str("Some(");
                render(x, t, out);
                out.push(')');
            }
        },
        Ty::Vec(t) | Ty::Slice(t) => {
            out.push('[');
            for (i, x) in v.as_seq().iter().enumerate() {
                if i > 0 {
                    out.push_str(", ");
                }
                render(x, t, out);
            }
            out.push(']');
        }
        Ty::UStruct => {
            let (id, name) = v.as_ustruct();
            let _ = write!(out, "UserS {{ id: {}, name: {:?} }}", id, name);
        }
        Ty::UPoint => {
            let t = v.as_tup();
            let _ = write!(out, "UserP {{ x: {}, y: {} }}", t[0].as_u() as u32, t[1].as_u() as u16);
        }
        Ty::UWrap => {
            let _ = write!(out, "UserW({})", v.as_tup()[0].as_u() as u8);
        }
        Ty::UEnum => {
            let (var, x, s) = v.as_uenum();
            match var {
                0 => out.push_str("A"),
                1 => {
                    let _ = write!(out, "B({})", x as u8);
                }
                _ => {
                    let _ = write!(out, "C {{ x: {}, s: {:?} }}", x as i16, s);
                }
            }
        }
    }
}

/// The key string the generated wrapper is documented to use.
pub fn key_of(d: &FnDesc, recv: Option<&ArgVal>, args: &[ArgVal]) -> String {
    let mut parts: Vec<String> = Vec::new();
    if d.receiver != Receiver::None {
        let mut s = String::new();
        render(recv.expect("receiver value"), &Ty::UStruct, &mut s);
        parts.push(s);
    }
    for (a, t) in args.iter().zip(d.args.iter()) {
        let mut s = String::new();
        render(a, t, &mut s);
        parts.push(s);
    }
    parts.join("|")
}

/// The value the undecorated twin returns for these arguments at `version`.
pub fn twin_value(d: &FnDesc, recv: Option<&ArgVal>, args: &[ArgVal], version: u32) -> String {
    let enc = vrt::enc_argvals(if d.receiver != Receiver::None { recv } else { None }, args, d.args);
    vrt::twin_value_enc(d.id, version, &enc, d.pad)
}

#[cfg(test)]
mod tests {
    use super::*;
    #[test]
    fn renders_like_debug() {
        let mut s = String::new();
        render(&ArgVal::Tup(vec![ArgVal::U(7), ArgVal::Str("a\"b|c\\".into())]), &Ty::Tup(&[Ty::U8, Ty::String]), &mut s);
        assert_eq!(s, format!("{:?}", (7u8, "a\"b|c\\".to_string())));
        let mut s = String::new();
        render(&ArgVal::Tup(vec![ArgVal::Str("x".into())]), &Ty::Tup(&[Ty::String]), &mut s);
        assert_eq!(s, format!("{:?}", ("x".to_string(),)));
        let mut s = String::new();
        render(&ArgVal::Seq(vec![ArgVal::Opt(None), ArgVal::Opt(Some(Box::new(ArgVal::Char('\''))))]), &Ty::Vec(&Ty::Opt(&Ty::Char)), &mut s);
        assert_eq!(s, format!("{:?}", vec![None, Some('\'')]));
        let mut s = String::new();
        render(&ArgVal::F64(f64::NAN.to_bits()), &Ty::F64, &mut s);
        assert_eq!(s, "NaN");
        let mut s = String::new();
        render(&ArgVal::F32((-0.0f32).to_bits()), &Ty::F32, &mut s);
        assert_eq!(s, "-0.0");
    }
}
