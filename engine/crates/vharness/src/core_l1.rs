//! Layer 1: the three cachelito-core engines driven over harness-owned storage with
//! generated configurations and histories, judged step by step by the reference model.

use crate::infra::{hash_of, CaseOut, Dec, Tier, Violation};
use crate::model::{Cfg, Model, Snapshot, StepInfo, SEC};
use crate::vals::{Blob, HVal, ValDesc, VTYPE_NAMES};
use cachelito_core::{AsyncGlobalCache, CacheStats, EvictionPolicy, GlobalCache, ThreadLocalCache};
use dashmap::DashMap;
use parking_lot::Mutex;
use serde::Serialize;
use serde_json::{json, Value};
use std::collections::VecDeque;
use vrt::{Flavour, Policy};

#[derive(Clone, Copy, Debug, PartialEq, Eq, Hash, Serialize)]
pub enum Focus {
    C01,
    C03,
    C04,
    C05,
    C06,
    C07,
    C08,
    C15,
    C16,
}

impl Focus {
    pub fn id(&self) -> &'static str {
        match self {
            Focus::C01 => "C01",
            Focus::C03 => "C03",
            Focus::C04 => "C04",
            Focus::C05 => "C05",
            Focus::C06 => "C06",
            Focus::C07 => "C07",
            Focus::C08 => "C08",
            Focus::C15 => "C15",
            Focus::C16 => "C16",
        }
    }
    /// clauses of the model this check evaluates
    fn evaluates(&self, clause: &str, cfg: &Cfg, info: &StepInfo) -> bool {
        match self {
            Focus::C01 => matches!(clause, "value" | "hit-absent" | "stale-store" | "store-invented-key" | "stale-after-oversize-store"),
            Focus::C03 => matches!(clause, "miss-present" | "get-changed-store" | "count"),
            Focus::C04 => match clause {
                "bound" | "count" | "get-changed-store" | "clear-left" => true,
                "miss-present" => cfg.ttl.is_none(),
                _ => false,
            },
            Focus::C05 => match clause {
                "mem-bound" | "mem-count" | "oversize-displaced" | "oversize-cached" | "estimator" => true,
                // victim order only for the documented weights: under the extreme ones the
                // scores are infinite or NaN and every victim is as good as another
                "order" => info.mem_evicted && cfg.policy != Policy::Random && cfg.frequency_weight.map(|w| (0.05..=10.0).contains(&w)).unwrap_or(true),
                _ => false,
            },
            Focus::C06 => matches!(clause, "served-expired" | "expired-not-purged" | "miss-present" | "get-changed-store"),
            Focus::C07 => clause == "order" && matches!(cfg.policy, Policy::Fifo | Policy::Lru),
            Focus::C08 => clause == "order" && matches!(cfg.policy, Policy::Lfu | Policy::Arc | Policy::Tlru),
            Focus::C15 => clause == "stats",
            Focus::C16 => clause == "panic",
        }
    }
}

#[derive(Clone, Debug, Hash, PartialEq, Serialize)]
pub enum CoreOp {
    Get { k: u8 },
    Put { k: u8, v: ValDesc },
    /// `insert_result` / `insert_result_with_memory` (Result value type only)
    PutResult { k: u8, v: ValDesc },
    Advance { ns: i64 },
    /// `GlobalCache::clear` (global engine only)
    Clear,
}

/// the first six are the documented range (C08); the last three are legal extremes whose
/// powers overflow to infinity or collapse to 1 (bounds and panics only: C04, C05, C16)
pub const FW_TABLE: [Option<f64>; 9] = [None, Some(0.1), Some(0.3), Some(1.0), Some(1.5), Some(3.0), Some(2000.0), Some(f64::MAX), Some(1e-300)];

#[derive(Clone, Debug, Hash, PartialEq, Serialize)]
pub struct CoreCase {
    pub flavour: Flavour2,
    pub vtype: u8,
    pub policy: Policy2,
    pub limit: Option<usize>,
    pub ttl: Option<u64>,
    pub max_memory: Option<usize>,
    pub fw_idx: u8,
    pub phase_ns: i64,
    pub n_keys: u8,
    /// use the memory-aware API even when max_memory is None
    pub force_mem_path: bool,
    pub ops: Vec<CoreOp>,
}

// serde/hash-friendly mirrors of vrt enums
#[derive(Clone, Copy, Debug, Hash, PartialEq, Eq, Serialize)]
pub enum Flavour2 {
    Global,
    Thread,
    Async,
}
#[derive(Clone, Copy, Debug, Hash, PartialEq, Eq, Serialize)]
pub enum Policy2 {
    Fifo,
    Lru,
    Lfu,
    Arc,
    Random,
    Tlru,
}
impl Flavour2 {
    pub fn v(&self) -> Flavour {
        match self {
            Flavour2::Global => Flavour::Global,
            Flavour2::Thread => Flavour::Thread,
            Flavour2::Async => Flavour::Async,
        }
    }
    pub fn from_idx(i: usize) -> Flavour2 {
        [Flavour2::Global, Flavour2::Thread, Flavour2::Async][i % 3]
    }
    pub fn name(&self) -> &'static str {
        match self {
            Flavour2::Global => "global",
            Flavour2::Thread => "thread",
            Flavour2::Async => "async",
        }
    }
}
impl Policy2 {
    pub fn v(&self) -> Policy {
        match self {
            Policy2::Fifo => Policy::Fifo,
            Policy2::Lru => Policy::Lru,
            Policy2::Lfu => Policy::Lfu,
            Policy2::Arc => Policy::Arc,
            Policy2::Random => Policy::Random,
            Policy2::Tlru => Policy::Tlru,
        }
    }
    pub fn from_idx(i: usize) -> Policy2 {
        [Policy2::Fifo, Policy2::Lru, Policy2::Lfu, Policy2::Arc, Policy2::Random, Policy2::Tlru][i % 6]
    }
    pub fn from(p: Policy) -> Policy2 {
        match p {
            Policy::Fifo => Policy2::Fifo,
            Policy::Lru => Policy2::Lru,
            Policy::Lfu => Policy2::Lfu,
            Policy::Arc => Policy2::Arc,
            Policy::Random => Policy2::Random,
            Policy::Tlru => Policy2::Tlru,
        }
    }
}

pub fn to_eviction(p: Policy) -> EvictionPolicy {
    match p {
        Policy::Fifo => EvictionPolicy::FIFO,
        Policy::Lru => EvictionPolicy::LRU,
        Policy::Lfu => EvictionPolicy::LFU,
        Policy::Arc => EvictionPolicy::ARC,
        Policy::Random => EvictionPolicy::Random,
        Policy::Tlru => EvictionPolicy::TLRU,
    }
}

impl CoreCase {
    pub fn cfg(&self) -> Cfg {
        Cfg {
            flavour: self.flavour.v(),
            policy: self.policy.v(),
            limit: self.limit,
            ttl: self.ttl,
            max_memory: self.max_memory,
            frequency_weight: FW_TABLE[self.fw_idx as usize % FW_TABLE.len()],
        }
    }
}

pub const MEM_SIZES: [usize; 6] = [64, 128, 256, 512, 1024, 4096];
pub const HUGE_TTLS: [u64; 5] = [u64::MAX, 1 << 63, (1 << 63) - 1, u64::MAX / 1_000_000_000, 1 << 40];

/// C16 cell table: every (flavour, policy+weight, limit, ttl, max_memory) combination.
pub fn c16_cells() -> Vec<(Flavour2, Policy2, u8, Option<usize>, Option<u64>, Option<usize>)> {
    let mut v = Vec::new();
    for f in 0..3 {
        for p in 0..6 {
            let fws: &[u8] = if p == 5 { &[0, 1, 2, 3, 4, 5, 6, 7, 8] } else { &[0] };
            for &fw in fws {
                for limit in [None, Some(1usize), Some(2), Some(3), Some(4)] {
                    for ttl in [None, Some(0u64), Some(1), Some(2), Some(3), Some(1u64 << 63), Some(u64::MAX)] {
                        for mem in [None, Some(40usize), Some(120), Some(4096)] {
                            v.push((Flavour2::from_idx(f), Policy2::from_idx(p), fw, limit, ttl, mem));
                        }
                    }
                }
            }
        }
    }
    v
}

fn dec_val(d: &mut Dec, max_memory: Option<usize>, salt: u16) -> ValDesc {
    let variant = d.byte();
    match max_memory {
        Some(m) => {
            let m16 = m.min(60000) as u16;
            let (size, target_fp) = match d.weighted(&[3, 3, 3, 2, 3, 2, 1, 2, 3, 2]) {
                8 => (m16 / 5, true),
                9 => (m16 / 6 + d.choose(8) as u16, true),
                0 => (d.choose(9) as u16, false),
                1 => (m16 / 4, true),
                2 => (m16 / 2, true),
                3 => (m16.saturating_sub(1), true),
                4 => (m16, true),
                5 => (m16.saturating_add(1), true),
                6 => (m16.saturating_mul(2), true),
                _ => (m16 / 3 + d.choose(16) as u16, true),
            };
            let extra_cap = if d.chance(1, 4) { d.choose(32) as u8 } else { 0 };
            ValDesc { size, target_fp, extra_cap, variant, salt }
        }
        None => {
            let size = match d.weighted(&[4, 3, 1]) {
                0 => d.choose(12) as u16,
                1 => 16 + d.choose(64) as u16,
                _ => 200 + d.choose(200) as u16,
            };
            let extra_cap = if d.chance(1, 4) { d.choose(32) as u8 } else { 0 };
            ValDesc { size, target_fp: false, extra_cap, variant, salt }
        }
    }
}

pub fn decode(bytes: &[u8], focus: Focus, tier: Tier) -> CoreCase {
    let mut d = Dec::new(bytes);
    let mut flavour = Flavour2::from_idx(d.choose(3));
    let vtype = d.choose(8) as u8;
    let mut policy = Policy2::from_idx(d.choose(6));
    let mut limit: Option<usize> = match d.weighted(&[2, 2, 3, 3, 2]) {
        0 => None,
        n => Some(n),
    };
    let mut ttl: Option<u64> = if d.chance(1, 4) { Some(1 + d.choose(3) as u64) } else { None };
    let mut max_memory: Option<usize> = if d.chance(1, 4) { Some(MEM_SIZES[d.choose(6)]) } else { None };
    let mut fw_idx: u8 = 0;
    let mut phase_ns: i64 = 0;
    let b_fw = d.choose(6) as u8;
    let b_fwx = d.choose(9) as u8;
    let b_phase = d.choose(4);
    let b_cell = d.choose16(65536);
    let b_mem = d.choose(6);
    let b_lim = d.choose(4);
    let b_ttl = d.choose(4);
    match focus {
        Focus::C01 | Focus::C15 => {
            if policy == Policy2::Tlru {
                fw_idx = b_fwx;
            }
        }
        Focus::C03 => {
            limit = None;
            ttl = None;
            max_memory = None;
        }
        Focus::C04 => {
            limit = Some(1 + b_lim);
            if policy == Policy2::Tlru {
                fw_idx = b_fwx;
            }
        }
        Focus::C05 => {
            max_memory = Some(MEM_SIZES[b_mem]);
            if policy == Policy2::Tlru {
                fw_idx = b_fwx;
            }
        }
        Focus::C06 => {
            ttl = Some(1 + (b_ttl % 3) as u64);
            if b_cell % 8 == 7 {
                // legal extreme values: nothing stored under them ever expires in a test's lifetime
                ttl = Some(HUGE_TTLS[(b_cell >> 3) % HUGE_TTLS.len()]);
            }
            phase_ns = [0, 250_000_000, 500_000_000, 999_999_999][b_phase];
        }
        Focus::C07 => {
            policy = if b_fw % 2 == 0 { Policy2::Fifo } else { Policy2::Lru };
            if limit.is_none() && max_memory.is_none() {
                if b_phase % 2 == 0 {
                    limit = Some(1 + b_lim);
                } else {
                    max_memory = Some(MEM_SIZES[b_mem]);
                }
            }
        }
        Focus::C08 => {
            policy = [Policy2::Lfu, Policy2::Arc, Policy2::Tlru][b_phase % 3];
            ttl = [None, Some(2u64), Some(3), Some(5)][b_ttl];
            if policy == Policy2::Tlru {
                fw_idx = b_fw;
            }
            if b_mem % 2 == 0 {
                // memory pressure with many small residents: one store evicts several entries
                max_memory = Some(MEM_SIZES[2 + b_mem / 2]);
                if b_lim >= 2 {
                    limit = None;
                }
            }
            if limit.is_none() && max_memory.is_none() {
                limit = Some(1 + b_lim);
            }
        }
        Focus::C16 => {
            let cells = c16_cells();
            let c = cells[(b_cell * cells.len()) >> 16];
            flavour = c.0;
            policy = c.1;
            fw_idx = c.2;
            limit = c.3;
            ttl = c.4;
            max_memory = c.5;
        }
    }
    let cap = limit.unwrap_or(3);
    let n_keys = (cap + 1 + d.choose(4)).min(9) as u8;
    let force_mem_path = max_memory.is_none() && d.chance(1, 5);
    let max_ops = match tier {
        Tier::Quick => 36,
        Tier::Thorough => 56,
    };
    let n_ops = 5 + d.choose(max_ops);
    let is_result = vtype == 4;
    let t_ns = ttl.map(crate::model::ttl_ns);
    // op weights: get, put, putresult, advance, clear
    let w: [u32; 5] = match focus {
        Focus::C06 => [10, 8, 1, 9, 0],
        Focus::C07 => [11, 10, 1, 2, 0],
        Focus::C08 => [14, 9, 1, 4, 0],
        Focus::C05 => [7, 12, 1, 2, 1],
        Focus::C04 => [8, 11, 1, 4, 1],
        Focus::C03 => [12, 8, 1, 1, 0],
        _ => [10, 10, 1, 4, 1],
    };
    let mut ops = Vec::with_capacity(n_ops);
    for i in 0..n_ops {
        let salt = (i as u16).wrapping_mul(7).wrapping_add(1);
        let mut kind = d.weighted(&w);
        if kind == 2 && !is_result {
            kind = 1;
        }
        if kind == 4 && flavour != Flavour2::Global {
            kind = 0;
        }
        if kind == 3 && ttl.is_none() && !matches!(focus, Focus::C16 | Focus::C01) {
            // time does not matter without ttl
            kind = 0;
        }
        let op = match kind {
            0 => {
                let k = d.choose(n_keys as usize) as u8;
                // now and then the same lookup many times in a row (counters that wrap or saturate)
                if d.chance(1, 14) {
                    let n = [4usize, 16, 99, 254, 255, 256, 300][d.choose(7)];
                    for _ in 0..n {
                        ops.push(CoreOp::Get { k });
                    }
                }
                CoreOp::Get { k }
            }
            1 => CoreOp::Put { k: d.choose(n_keys as usize) as u8, v: dec_val(&mut d, max_memory, salt) },
            2 => CoreOp::PutResult { k: d.choose(n_keys as usize) as u8, v: dec_val(&mut d, max_memory, salt) },
            3 => {
                let ns = match focus {
                    // the async cache measures lifetimes in whole seconds; the sync caches use
                    // Instant, so fractions of the lifetime (late-life ages included) are exact
                    Focus::C08 if flavour != Flavour2::Async && t_ns.is_some() => {
                        let t = t_ns.unwrap_or(SEC);
                        [SEC, 2 * SEC, t / 100 * 96, t / 100 * 98, t / 2, 250_000_000, 3 * SEC, t / 100 * 99][d.choose(8)]
                    }
                    Focus::C08 => [SEC, 2 * SEC, SEC, 3 * SEC][d.choose(4)],
                    Focus::C05 | Focus::C07 => [SEC, 2 * SEC][d.choose(2)],
                    _ => {
                        let t = t_ns.unwrap_or(SEC);
                        let t = if t > 1000 * SEC { 3 * SEC } else { t };
                        [SEC, 250_000_000, t - SEC, t - 1, t, t + 1, t + SEC, 1, 500_000_000, 999_999_999][d.choose(10)].max(0)
                    }
                };
                CoreOp::Advance { ns }
            }
            _ => CoreOp::Clear,
        };
        ops.push(op);
    }
    CoreCase { flavour, vtype, policy, limit, ttl, max_memory, fw_idx, phase_ns, n_keys, force_mem_path, ops }
}

pub fn describe(bytes: &[u8], focus: Focus, tier: Tier) -> Value {
    let c = decode(bytes, focus, tier);
    let mut v = serde_json::to_value(&c).unwrap_or(Value::Null);
    v["value_type"] = json!(VTYPE_NAMES[c.vtype as usize % 8]);
    v["frequency_weight"] = json!(FW_TABLE[c.fw_idx as usize % FW_TABLE.len()]);
    v
}

// ---------------------------------------------------------------------------------------
// Engines
// ---------------------------------------------------------------------------------------

pub struct AsyncStore<V: Clone> {
    pub map: DashMap<String, (V, u64, u64)>,
    pub order: Mutex<VecDeque<String>>,
    pub stats: CacheStats,
}

impl<V: Clone> AsyncStore<V> {
    pub fn new() -> Self {
        AsyncStore { map: DashMap::with_shard_amount(4), order: Mutex::new(VecDeque::new()), stats: CacheStats::new() }
    }
}

pub enum Eng<'a, V: HVal> {
    G(GlobalCache<V>),
    T(ThreadLocalCache<V>),
    A(AsyncGlobalCache<'a, V>, &'a AsyncStore<V>),
}

impl<'a, V: HVal> Eng<'a, V> {
    pub fn new(cfg: &Cfg, astore: &'a AsyncStore<V>) -> Eng<'a, V> {
        let pol = to_eviction(cfg.policy);
        match cfg.flavour {
            Flavour::Global => {
                V::gmap().write().clear();
                V::gorder().lock().clear();
                V::gstats().reset();
                Eng::G(GlobalCache::new(V::gmap(), V::gorder(), cfg.limit, cfg.max_memory, pol, cfg.ttl, cfg.frequency_weight, V::gstats()))
            }
            Flavour::Thread => {
                V::tmap().with(|m| m.borrow_mut().clear());
                V::torder().with(|o| o.borrow_mut().clear());
                Eng::T(ThreadLocalCache::new(V::tmap(), V::torder(), cfg.limit, cfg.max_memory, pol, cfg.ttl, cfg.frequency_weight))
            }
            Flavour::Async => Eng::A(
                AsyncGlobalCache::new(&astore.map, &astore.order, cfg.limit, cfg.max_memory, pol, cfg.ttl, cfg.frequency_weight, &astore.stats),
                astore,
            ),
        }
    }
    pub fn get(&self, k: &str) -> Option<V> {
        match self {
            Eng::G(c) => c.get(k),
            Eng::T(c) => c.get(k),
            Eng::A(c, _) => c.get(k),
        }
    }
    pub fn put(&self, k: &str, v: V, mem: bool) {
        match (self, mem) {
            (Eng::G(c), false) => c.insert(k, v),
            (Eng::G(c), true) => c.insert_with_memory(k, v),
            (Eng::T(c), false) => c.insert(k, v),
            (Eng::T(c), true) => c.insert_with_memory(k, v),
            (Eng::A(c, _), false) => c.insert(k, v),
            (Eng::A(c, _), true) => c.insert_with_memory(k, v),
        }
    }
    pub fn clear(&self) {
        if let Eng::G(c) = self {
            c.clear()
        }
    }
    pub fn stats(&self) -> (u64, u64) {
        match self {
            Eng::G(c) => (c.stats.hits(), c.stats.misses()),
            Eng::T(c) => (c.stats().hits(), c.stats().misses()),
            Eng::A(_, s) => (s.stats.hits(), s.stats.misses()),
        }
    }
    pub fn snapshot(&self) -> Snapshot {
        let mut s = Snapshot::default();
        match self {
            Eng::G(_) => {
                for (k, e) in V::gmap().read().iter() {
                    s.entries.insert(k.clone(), (hash_of(&e.value), e.value.footprint()));
                }
                s.queue = V::gorder().lock().iter().cloned().collect();
            }
            Eng::T(_) => {
                V::tmap().with(|m| {
                    for (k, e) in m.borrow().iter() {
                        s.entries.insert(k.clone(), (hash_of(&e.value), e.value.footprint()));
                    }
                });
                s.queue = V::torder().with(|o| o.borrow().iter().cloned().collect());
            }
            Eng::A(_, st) => {
                for r in st.map.iter() {
                    s.entries.insert(r.key().clone(), (hash_of(&r.value().0), r.value().0.footprint()));
                }
                s.queue = st.order.lock().iter().cloned().collect();
            }
        }
        s
    }
    /// sum of `estimate_memory()` over stored values (differential on the estimator)
    pub fn estimator_total(&self) -> Vec<(String, usize, usize)> {
        let mut out = Vec::new();
        match self {
            Eng::G(_) => {
                for (k, e) in V::gmap().read().iter() {
                    out.push((k.clone(), e.value.estimate_memory(), e.value.footprint()));
                }
            }
            Eng::T(_) => V::tmap().with(|m| {
                for (k, e) in m.borrow().iter() {
                    out.push((k.clone(), e.value.estimate_memory(), e.value.footprint()));
                }
            }),
            Eng::A(_, st) => {
                for r in st.map.iter() {
                    out.push((r.key().clone(), r.value().0.estimate_memory(), r.value().0.footprint()));
                }
            }
        }
        out
    }
}

/// `insert_result` family, only meaningful for the Result value type.
fn put_result(eng: &Eng<'_, Result<String, String>>, k: &str, v: &Result<String, String>, mem: bool) {
    match (eng, mem) {
        (Eng::G(c), false) => c.insert_result(k, v),
        (Eng::G(c), true) => c.insert_result_with_memory(k, v),
        (Eng::T(c), false) => c.insert_result(k, v),
        (Eng::T(c), true) => c.insert_result_with_memory(k, v),
        // the async engine has no Result-specific store; the async macro filters on is_ok()
        (Eng::A(c, _), false) => {
            if v.is_ok() {
                c.insert(k, v.clone())
            }
        }
        (Eng::A(c, _), true) => {
            if v.is_ok() {
                c.insert_with_memory(k, v.clone())
            }
        }
    }
}

trait MaybeResult: HVal {
    fn put_result_dyn(eng: &Eng<'_, Self>, k: &str, v: &Self, mem: bool);
}
macro_rules! not_result {
    ($($t:ty),*) => {$(
        impl MaybeResult for $t {
            fn put_result_dyn(eng: &Eng<'_, Self>, k: &str, v: &Self, mem: bool) {
                eng.put(k, v.clone(), mem)
            }
        }
    )*};
}
not_result!(String, Vec<u32>, Vec<String>, Option<String>, (String, Vec<u8>), Box<String>, Blob);
impl MaybeResult for Result<String, String> {
    fn put_result_dyn(eng: &Eng<'_, Self>, k: &str, v: &Self, mem: bool) {
        put_result(eng, k, v, mem)
    }
}

// ---------------------------------------------------------------------------------------
// Driver
// ---------------------------------------------------------------------------------------

fn panic_class(msg: &str) -> &'static str {
    if msg.contains("already borrowed") || msg.contains("BorrowMutError") || msg.contains("already mutably borrowed") || msg.contains("BorrowError") {
        "refcell-borrow"
    } else if msg.contains("overflow") {
        "arithmetic-overflow"
    } else if msg.contains("unwrap") {
        "unwrap"
    } else if msg.contains("index out of bounds") || msg.contains("out of range") {
        "index"
    } else {
        "other"
    }
}

/// Keys shaped like macro keys: shared prefixes, differing late, separators and quotes.
pub fn l1_key(k: u8) -> String {
    const KEYS: [&str; 9] = ["0|\"\"", "0|\"aaaaaa\"", "0|\"aaaaaab\"", "1|\"b|c\"", "1|\"b|\"", "10|\"q\"", "10", "1", "0|\"aaaaaa\"|7"];
    KEYS[(k % 9) as usize].to_string()
}

fn run_typed<V: MaybeResult>(case: &CoreCase, focus: Focus) -> CaseOut {
    let cfg = case.cfg();
    let mut out = CaseOut { key: hash_of(case), ..CaseOut::default() };
    vrt::clock::freeze(case.phase_ns);
    fastrand::seed(out.key | 1);
    let astore: AsyncStore<V> = AsyncStore::new();
    let eng: Eng<'_, V> = Eng::new(&cfg, &astore);
    let mut model = Model::new(cfg.clone());
    let mem_path = cfg.max_memory.is_some() || case.force_mem_path;
    let mut had_disturbance = false; // eviction / expiry / re-store happened earlier
    let mut keys_touched = std::collections::BTreeSet::new();
    let (mut any_overflow, mut any_mem, mut any_near, mut any_differ, mut any_score, mut any_hit_after, mut any_expiry) = (false, false, false, false, false, false, false);
    let (mut n_hits, mut n_miss) = (0u64, 0u64);
    let sig_base = format!("{}:{}:{}", focus.id(), case.flavour.name(), cfg.policy.name());

    for (step, op) in case.ops.iter().enumerate() {
        let now = vrt::clock::now_ns();
        let mut info = StepInfo::default();
        let res = crate::infra::guarded(|| match op {
            CoreOp::Get { k } => {
                let key = l1_key(*k);
                let got = eng.get(&key);
                let snap = eng.snapshot();
                Some((key, got.map(|v| hash_of(&v)), snap, 0u8))
            }
            CoreOp::Put { k, v } => {
                let key = l1_key(*k);
                let val = V::build(v);
                let (tag, fp) = (hash_of(&val), val.footprint());
                eng.put(&key, val, mem_path);
                let snap = eng.snapshot();
                Some((key, Some(tag ^ (fp as u64).rotate_left(40)), snap, 1))
            }
            CoreOp::PutResult { k, v } => {
                let key = l1_key(*k);
                let val = V::build(v);
                let (tag, fp) = (hash_of(&val), val.footprint());
                let is_err = val.is_err();
                V::put_result_dyn(&eng, &key, &val, mem_path);
                let snap = eng.snapshot();
                Some((key, Some(tag ^ (fp as u64).rotate_left(40)), snap, if is_err { 3 } else { 1 }))
            }
            CoreOp::Advance { ns } => {
                vrt::clock::advance_ns(*ns);
                None
            }
            CoreOp::Clear => {
                eng.clear();
                Some((String::new(), None, eng.snapshot(), 2))
            }
        });
        let applied = match res {
            Err(msg) => {
                if focus == Focus::C16 {
                    out.violation = Some(Violation {
                        signature: format!("{}:panic:{}", sig_base, panic_class(&msg)),
                        clause: "panic".into(),
                        step,
                        expected: "the operation completes".into(),
                        observed: format!("panic: {}", msg.chars().take(200).collect::<String>()),
                    });
                } else {
                    out.aborted_foreign = true;
                    out.classes.push("aborted_by_panic");
                }
                break;
            }
            Ok(a) => a,
        };
        let Some((key, tagfp, snap, kind)) = applied else { continue };
        match kind {
            0 => {
                let (h0, m0) = (n_hits, n_miss);
                model.lookup(&key, tagfp, &snap, now, &mut info);
                keys_touched.insert(key.clone());
                if tagfp.is_some() {
                    n_hits += 1;
                } else {
                    n_miss += 1;
                }
                let (h, m) = eng.stats();
                if (h, m) != (n_hits, n_miss) {
                    info.findings.push(crate::model::Finding {
                        clause: "stats",
                        expected: format!("hits {} misses {} (one count per lookup; was {}/{})", n_hits, n_miss, h0, m0),
                        observed: format!("hits {} misses {}", h, m),
                    });
                    // re-sync so that one defect is reported once
                    n_hits = h;
                    n_miss = m;
                }
                if info.hit && had_disturbance && keys_touched.len() >= 2 {
                    any_hit_after = true;
                }
                if info.expired {
                    had_disturbance = true;
                    any_expiry = true;
                }
                if info.near_boundary {
                    any_near = true;
                }
            }
            1 => {
                // recover tag / fp of the value we stored
                // tag / footprint of the value as stored: `insert` moves the value in,
                // `insert_result*` stores a clone (whose heap capacity may be smaller)
                let (tag, fp) = match op {
                    CoreOp::Put { v, .. } => {
                        let val = V::build(v);
                        (hash_of(&val), val.footprint())
                    }
                    CoreOp::PutResult { v, .. } => {
                        let val = V::build(v).clone();
                        (hash_of(&val), val.footprint())
                    }
                    _ => unreachable!(),
                };
                let existed = model.entries.contains_key(&key);
                model.store(&key, tag, fp, mem_path, &snap, now, &mut info);
                keys_touched.insert(key.clone());
                if existed || !info.removed.is_empty() {
                    had_disturbance = true;
                }
                any_overflow |= info.overflow;
                any_mem |= info.mem_evicted || info.oversize_rejected || info.exact_fit;
                any_differ |= info.fifo_lru_differ;
                any_score |= info.score_decides;
                if focus == Focus::C05 {
                    for (k, est, fp) in eng.estimator_total() {
                        if est != fp {
                            info.findings.push(crate::model::Finding {
                                clause: "estimator",
                                expected: format!("{k:?}: {fp} bytes (inline + owned heap capacity)"),
                                observed: format!("estimate_memory() = {est}"),
                            });
                        }
                    }
                }
            }
            3 => {
                // Err result: nothing may change
                let before: std::collections::BTreeSet<String> = model.entries.keys().cloned().collect();
                let after: std::collections::BTreeSet<String> = snap.entries.keys().cloned().collect();
                if before != after || snap.entries.iter().any(|(k, (t, _))| model.entries.get(k).map(|e| e.tag != *t).unwrap_or(true)) {
                    info.findings.push(crate::model::Finding { clause: "err-stored", expected: "an Err result changes nothing".into(), observed: format!("store {:?} -> {:?}", before, after) });
                }
            }
            _ => {
                model.clear(&snap, &mut info);
                had_disturbance = true;
            }
        }
        // queue diagnostics (never a verdict: the properties are behavioural)
        if !snap.queue.is_empty() || !snap.entries.is_empty() {
            let qs: std::collections::BTreeSet<&String> = snap.queue.iter().collect();
            if qs.len() != snap.queue.len() {
                out.classes.push("diag_queue_duplicate");
            }
            if snap.queue.iter().any(|k| !snap.entries.contains_key(k)) {
                out.classes.push("diag_queue_orphan");
            }
            if snap.entries.keys().any(|k| !qs.contains(k)) {
                out.classes.push("diag_stored_untracked");
            }
        }
        for f in &info.findings {
            if focus.evaluates(f.clause, &cfg, &info) || (f.clause == "err-stored" && focus == Focus::C01) {
                out.violation = Some(Violation {
                    signature: format!("{}:{}", sig_base, f.clause),
                    clause: f.clause.to_string(),
                    step,
                    expected: f.expected.clone(),
                    observed: f.observed.clone(),
                });
                break;
            }
        }
        if out.violation.is_some() {
            break;
        }
    }
    out.classes.sort();
    out.classes.dedup();
    if any_overflow {
        out.classes.push("overflow");
    }
    if any_mem {
        out.classes.push("memory_pressure");
    }
    if any_expiry {
        out.classes.push("expiry");
    }
    if any_near {
        out.classes.push("near_ttl_boundary");
    }
    if any_differ {
        out.classes.push("fifo_lru_victims_differ");
    }
    if any_score {
        out.classes.push("score_decides");
    }
    if any_hit_after {
        out.classes.push("hit_after_disturbance");
    }
    out.classes.push(match case.flavour {
        Flavour2::Global => "flavour_global",
        Flavour2::Thread => "flavour_thread",
        Flavour2::Async => "flavour_async",
    });
    out.nontrivial = match focus {
        Focus::C01 => any_hit_after,
        Focus::C03 => n_hits >= 2,
        Focus::C04 => any_overflow,
        Focus::C05 => any_mem,
        Focus::C06 => any_near,
        Focus::C07 => any_differ,
        Focus::C08 => any_score,
        Focus::C15 => n_hits > 0 && n_miss > 0 && (any_expiry || any_overflow),
        Focus::C16 => any_overflow || any_mem || any_expiry,
    };
    vrt::clock::unfreeze();
    out
}

pub fn run_case(bytes: &[u8], focus: Focus, tier: Tier) -> CaseOut {
    let case = decode(bytes, focus, tier);
    match case.vtype % 8 {
        0 => run_typed::<String>(&case, focus),
        1 => run_typed::<Vec<u32>>(&case, focus),
        2 => run_typed::<Vec<String>>(&case, focus),
        3 => run_typed::<Option<String>>(&case, focus),
        4 => run_typed::<Result<String, String>>(&case, focus),
        5 => run_typed::<(String, Vec<u8>)>(&case, focus),
        6 => run_typed::<Box<String>>(&case, focus),
        _ => run_typed::<Blob>(&case, focus),
    }
}

macro_rules! focus_fns {
    ($run:ident, $desc:ident, $f:expr) => {
        pub fn $run(b: &[u8], t: Tier) -> CaseOut {
            run_case(b, $f, t)
        }
        pub fn $desc(b: &[u8], t: Tier) -> Value {
            describe(b, $f, t)
        }
    };
}
focus_fns!(run_c01, desc_c01, Focus::C01);
focus_fns!(run_c03, desc_c03, Focus::C03);
focus_fns!(run_c04, desc_c04, Focus::C04);
focus_fns!(run_c05, desc_c05, Focus::C05);
focus_fns!(run_c06, desc_c06, Focus::C06);
focus_fns!(run_c07, desc_c07, Focus::C07);
focus_fns!(run_c08, desc_c08, Focus::C08);
focus_fns!(run_c15, desc_c15, Focus::C15);
focus_fns!(run_c16, desc_c16, Focus::C16);

pub const CORE_LEN_QUICK: usize = 24 + 36 * 7 + 8;
pub const CORE_LEN_THOROUGH: usize = 24 + 61 * 7 + 8;
