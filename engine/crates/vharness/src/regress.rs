//! Plain regression cases: the minimal failing inputs of the defects this framework found
//! on the pinned tree (all repaired by `fix:` commits in /repo), written out as ordinary
//! code that bypasses the generators.  They run first in the corresponding check.

use crate::infra::Violation;
use cachelito_core::{AsyncGlobalCache, CacheStats, EvictionPolicy, ThreadLocalCache};
use dashmap::DashMap;
use parking_lot::Mutex;
use std::collections::VecDeque;

fn v(sig: &str, expected: &str, observed: String) -> Option<Violation> {
    Some(Violation { signature: format!("{}:regression", sig), clause: "regression".into(), step: 0, expected: expected.to_string(), observed })
}

struct AStore {
    map: DashMap<String, (String, u64, u64)>,
    order: Mutex<VecDeque<String>>,
    stats: CacheStats,
}
impl AStore {
    fn new() -> AStore {
        AStore { map: DashMap::new(), order: Mutex::new(VecDeque::new()), stats: CacheStats::new() }
    }
    fn cache(&self, limit: Option<usize>, mem: Option<usize>, p: EvictionPolicy) -> AsyncGlobalCache<'_, String> {
        AsyncGlobalCache::new(&self.map, &self.order, limit, mem, p, None, None, &self.stats)
    }
    fn keys(&self) -> Vec<String> {
        let mut k: Vec<String> = self.map.iter().map(|r| r.key().clone()).collect();
        k.sort();
        k
    }
}

/// D1 (C16): thread-local LFU / ARC / TLRU, limit 2, insert a, b, c must not panic.
pub fn d1_thread_local_overflow() -> Option<Violation> {
    use crate::vals::Stores;
    for p in [EvictionPolicy::LFU, EvictionPolicy::ARC, EvictionPolicy::TLRU] {
        <String as Stores>::tmap().with(|m| m.borrow_mut().clear());
        <String as Stores>::torder().with(|o| o.borrow_mut().clear());
        let c = ThreadLocalCache::<String>::new(<String as Stores>::tmap(), <String as Stores>::torder(), Some(2), None, p, None, None);
        let r = crate::infra::guarded(|| {
            c.insert("a", "1".into());
            c.insert("b", "2".into());
            c.insert("c", "3".into());
        });
        if let Err(m) = r {
            return v("C16:thread:overflow", "ThreadLocalCache limit 2, insert a, b, c completes under LFU / ARC / TLRU", format!("panic under {:?}: {}", p, m));
        }
        let n = <String as Stores>::tmap().with(|m| m.borrow().len());
        if n != 2 {
            return v("C16:thread:overflow", "2 entries after the overflow", format!("{} entries under {:?}", n, p));
        }
    }
    None
}

/// D2 (C01): async insert(k, 1); insert(k, 2); get(k) == 2.
pub fn d2_async_last_store_wins() -> Option<Violation> {
    let s = AStore::new();
    let c = s.cache(None, None, EvictionPolicy::FIFO);
    c.insert("k", "1".into());
    c.insert("k", "2".into());
    match c.get("k") {
        Some(x) if x == "2" => None,
        other => v("C01:async:last-store-wins", "insert(k,1); insert(k,2); get(k) = Some(2)", format!("{:?}", other)),
    }
}

/// D3 (C07): async LRU with max_memory only: store a, b; read a; store c evicts b.
pub fn d3_async_lru_memory_only() -> Option<Violation> {
    let s = AStore::new();
    // three 40-byte values (24 inline + 16 capacity) do not fit in 100 bytes, two do
    let c = s.cache(None, Some(100), EvictionPolicy::LRU);
    let val = |ch: char| -> String {
        let mut x = String::with_capacity(16);
        for _ in 0..16 {
            x.push(ch);
        }
        x
    };
    c.insert_with_memory("a", val('a'));
    c.insert_with_memory("b", val('b'));
    let _ = c.get("a");
    c.insert_with_memory("c", val('c'));
    let k = s.keys();
    if k == vec!["a".to_string(), "c".to_string()] {
        None
    } else {
        v("C07:async:lru-memory-only", "store a, b; read a; store c (over max_memory) evicts b: {a, c} remain", format!("{:?}", k))
    }
}

/// D4 (C08): async ARC, limit 2: store a, b; read a; read b; store c evicts a.
pub fn d4_async_arc_recency() -> Option<Violation> {
    for p in [EvictionPolicy::ARC, EvictionPolicy::TLRU] {
        let s = AStore::new();
        let c = s.cache(Some(2), None, p);
        c.insert("a", "1".into());
        c.insert("b", "2".into());
        let _ = c.get("a");
        let _ = c.get("b");
        c.insert("c", "3".into());
        let k = s.keys();
        // residents compete: a (least recently used of two equally popular entries) goes;
        // newcomer competes (store-then-evict): the never-hit c goes.  Never b.
        let ok = k == vec!["b".to_string(), "c".to_string()] || k == vec!["a".to_string(), "b".to_string()];
        if !ok {
            return v("C08:async:recency-rank", "equally popular entries: the least recently used one (a) is evicted - or the never-hit newcomer c if it competes - but never b", format!("{:?} under {:?}", k, p));
        }
    }
    None
}

/// Re-store into a full async cache evicts nothing (follow-up of D2).
pub fn d2b_async_restore_no_eviction() -> Option<Violation> {
    let s = AStore::new();
    let c = s.cache(Some(2), None, EvictionPolicy::FIFO);
    c.insert("a", "1".into());
    c.insert("b", "2".into());
    c.insert("a", "3".into());
    let k = s.keys();
    if k == vec!["a".to_string(), "b".to_string()] && c.get("a").as_deref() == Some("3") && s.order.lock().len() == 2 {
        None
    } else {
        v("C04:async:restore", "re-store of a cached key into a full cache removes nothing and leaves one queue entry per key", format!("store {:?}, queue {:?}", k, s.order.lock()))
    }
}

/// D8 (C04): async TLRU, limit 2, frequency_weight 2000: every resident with two or more hits
/// scores infinity; the overflowing store must still evict one of them.
pub fn d8_async_tlru_infinite_scores() -> Option<Violation> {
    for w in [2000.0f64, f64::MAX] {
        let s = AStore::new();
        let c = AsyncGlobalCache::new(&s.map, &s.order, Some(2), None, EvictionPolicy::TLRU, None, Some(w), &s.stats);
        c.insert("a", "1".into());
        c.insert("b", "2".into());
        for _ in 0..3 {
            let _ = c.get("a");
            let _ = c.get("b");
        }
        c.insert("c", "3".into());
        let k = s.keys();
        if k.len() > 2 {
            return v("C04:async:tlru:bound", "limit 2, TLRU with frequency_weight 2000: a, b hit three times each, store c: at most 2 entries", format!("{:?} (frequency_weight {:e})", k, w));
        }
    }
    None
}

pub fn cases_for(id: &str) -> Vec<(&'static str, fn() -> Option<Violation>)> {
    match id {
        "C16" => vec![("D1 thread-local LFU/ARC/TLRU overflow", d1_thread_local_overflow as fn() -> Option<Violation>)],
        "C01" => vec![("D2 async last store wins", d2_async_last_store_wins as fn() -> Option<Violation>)],
        "C07" => vec![("D3 async LRU with max_memory only", d3_async_lru_memory_only as fn() -> Option<Violation>)],
        "C08" => vec![("D4 async ARC/TLRU recency rank", d4_async_arc_recency as fn() -> Option<Violation>)],
        "C04" => vec![("D2b async re-store into a full cache", d2b_async_restore_no_eviction as fn() -> Option<Violation>), ("D8 async TLRU with infinite scores", d8_async_tlru_infinite_scores as fn() -> Option<Violation>)],
        _ => vec![],
    }
}


