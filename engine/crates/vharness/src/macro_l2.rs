//! Layer 2: functions decorated with the real macros (vcorpus / generated programs) driven
//! through generated histories.  Observations: return value, executed-flag, predicate logs,
//! stored-key listing (global / async, through a never-matching `invalidate_with`),
//! statistics registry.  The same reference model judges the steps.

use crate::infra::{hash_of, str_hash};
use crate::keys::{key_of, twin_value};
use crate::model::{Cfg, Exp, MEntry, Model, Snapshot, StepInfo};
use std::cell::RefCell;
use std::collections::{BTreeMap, BTreeSet};
use std::sync::Mutex;
use vrt::{ArgVal, Flavour, FnDesc, Policy, PredCall, Ret};

pub type CallFn = fn(u32, Option<&ArgVal>, &[ArgVal]) -> Ret;
pub type CallAsyncFn = for<'a> fn(u32, Option<&'a ArgVal>, &'a [ArgVal]) -> vrt::AsyncRet<'a>;

/// The set of decorated functions a simulation drives (static corpus or a generated program).
#[derive(Clone, Copy)]
pub struct Corpus {
    pub funcs: &'static [FnDesc],
    pub call: CallFn,
    pub call_async: CallAsyncFn,
}

static ACTIVE: std::sync::OnceLock<Corpus> = std::sync::OnceLock::new();

/// The corpus all checks drive: the static macro corpus, unless a generated program
/// installed its own functions with `set_corpus` at start-up (C19 program tier).
pub fn static_corpus() -> Corpus {
    *ACTIVE.get_or_init(|| Corpus { funcs: vcorpus::FUNCS, call: vcorpus::call, call_async: vcorpus::call_async })
}

pub fn set_corpus(c: Corpus) {
    let _ = ACTIVE.set(c);
}

pub fn is_generated_corpus() -> bool {
    !std::ptr::eq(static_corpus().funcs.as_ptr(), vcorpus::FUNCS.as_ptr())
}

impl Corpus {
    pub fn by_id(&self, id: u32) -> &'static FnDesc {
        // ids are 1-based and dense in generated tables; fall back to a scan
        let i = id as usize;
        if i >= 1 && i <= self.funcs.len() && self.funcs[i - 1].id == id {
            return &self.funcs[i - 1];
        }
        self.funcs.iter().find(|f| f.id == id).expect("function id")
    }
    pub fn family(&self, fam: &str) -> Vec<&'static FnDesc> {
        self.funcs.iter().filter(|f| f.family == fam).collect()
    }
}

/// Global/async functions called at least once in this process (first-use registration).
static USED_EVER: Mutex<BTreeSet<u32>> = Mutex::new(BTreeSet::new());

pub fn used_ever() -> BTreeSet<u32> {
    USED_EVER.lock().unwrap().clone()
}

#[derive(Clone, Copy, Debug, PartialEq, Eq, Hash, serde::Serialize)]
pub struct CallScript {
    /// Result functions: body returns Ok / Err
    pub ok: bool,
    /// verdict of the cache_if predicate
    pub cif: bool,
    /// verdict of the invalidate_on check
    pub inv: bool,
}

impl Default for CallScript {
    fn default() -> Self {
        CallScript { ok: true, cif: true, inv: false }
    }
}

#[derive(Clone, Debug)]
pub struct CallObs {
    pub ret: Ret,
    pub executed: u32,
    pub preds: Vec<PredCall>,
}

pub fn do_call(c: &Corpus, d: &FnDesc, recv: Option<&ArgVal>, args: &[ArgVal], sc: &CallScript, version: u32) -> Result<CallObs, String> {
    vrt::begin_call(sc.ok, version, sc.cif, sc.inv);
    let r = crate::infra::guarded(|| match d.flavour {
        Flavour::Async => vrt::block_on((c.call_async)(d.id, recv, args)),
        _ => (c.call)(d.id, recv, args),
    });
    if d.flavour != Flavour::Thread {
        USED_EVER.lock().unwrap().insert(d.id);
    }
    let ret = r?;
    Ok(CallObs { ret, executed: vrt::executions(), preds: vrt::pred_log() })
}

thread_local! {
    static LISTED: RefCell<Vec<String>> = const { RefCell::new(Vec::new()) };
}

/// Keys stored by a global/async macro cache; None when no callback is registered yet.
pub fn list_keys(name: &str) -> Option<BTreeSet<String>> {
    LISTED.with(|l| l.borrow_mut().clear());
    let ok = cachelito_core::invalidate_with(name, |k: &str| {
        LISTED.with(|l| l.borrow_mut().push(k.to_string()));
        false
    });
    if !ok {
        return None;
    }
    Some(LISTED.with(|l| l.borrow().iter().cloned().collect()))
}

pub fn stats_of(name: &str) -> Option<(u64, u64)> {
    cachelito_core::stats_registry::get(name).map(|s| (s.hits(), s.misses()))
}

pub fn ret_tag(r: &Ret) -> u64 {
    match r {
        Ret::Str(s) => str_hash(s),
        Ret::Res(Ok(s)) => str_hash(s) ^ 0x0101,
        Ret::Res(Err(s)) => str_hash(s) ^ 0xE44,
    }
}

/// Footprint of the value as the macro stores it (a clone: heap capacity == length).
pub fn ret_fp(r: &Ret) -> usize {
    match r {
        Ret::Str(s) => std::mem::size_of::<String>() + s.len(),
        Ret::Res(x) => {
            std::mem::size_of::<Result<String, String>>()
                + match x {
                    Ok(s) => s.len(),
                    Err(s) => s.len(),
                }
        }
    }
}

pub fn cfg_of(d: &FnDesc) -> Cfg {
    Cfg { flavour: d.flavour, policy: d.effective_policy(), limit: d.limit, ttl: d.ttl, max_memory: d.max_memory, frequency_weight: d.frequency_weight }
}

// ---------------------------------------------------------------------------------------
// Simulation state
// ---------------------------------------------------------------------------------------

pub struct FnState {
    pub d: &'static FnDesc,
    pub model: Model,
    /// key -> value the model believes is stored
    pub values: BTreeMap<String, Ret>,
    pub hits: u64,
    pub misses: u64,
    pub calls: u64,
    pub executions: u64,
    /// thread scope, non-deterministic victim: only weak checks
    pub weak: bool,
    /// weak mode: keys certainly present / possibly present
    pub certain: BTreeSet<String>,
    pub possible: BTreeSet<String>,
    pub pressure: bool,
    /// key -> the last result of this key that must not have been stored (Err / rejected by cache_if)
    pub unstored: BTreeMap<String, (Ret, &'static str)>,
}

#[derive(Clone, Debug)]
pub struct L2Finding {
    pub clause: &'static str,
    pub fn_id: u32,
    pub expected: String,
    pub observed: String,
}

#[derive(Clone, Debug, Default)]
pub struct CallInfo {
    pub findings: Vec<L2Finding>,
    pub step: StepInfo,
    pub executed: bool,
    pub found: bool,
    pub stored_expected: bool,
    pub key: String,
    pub panicked: Option<String>,
    /// an Err outcome was observed / an Ok after an Err / ...
    pub was_err: bool,
    pub cif_rejected: bool,
    pub inv_stale: bool,
}

pub struct MacroSim {
    pub corpus: Corpus,
    pub fns: Vec<FnState>,
    pub version: u32,
}

fn l2(clause: &'static str, fn_id: u32, expected: String, observed: String) -> L2Finding {
    L2Finding { clause, fn_id, expected, observed }
}

impl MacroSim {
    /// Prepare the given functions: reset their caches through the public invalidation API
    /// and their statistics.  Returns Err if a reset did not empty a cache.
    pub fn new(corpus: Corpus, ids: &[u32]) -> Result<MacroSim, String> {
        let mut fns = Vec::new();
        for &id in ids {
            let d = corpus.by_id(id);
            if d.flavour != Flavour::Thread {
                let _ = cachelito_core::invalidate_with(d.cache_name, |_k: &str| true);
                if d.declares_metadata() {
                    let _ = cachelito_core::invalidate_cache(d.cache_name);
                }
                let _ = cachelito_core::stats_registry::reset(d.cache_name);
                if let Some(l) = list_keys(d.cache_name) {
                    if !l.is_empty() {
                        return Err(format!("reset of {} left {:?}", d.cache_name, l));
                    }
                }
            }
            let cfg = cfg_of(d);
            let weak = d.flavour == Flavour::Thread && !matches!(cfg.policy, Policy::Fifo | Policy::Lru);
            fns.push(FnState {
                d,
                model: Model::new(cfg),
                values: BTreeMap::new(),
                hits: 0,
                misses: 0,
                calls: 0,
                executions: 0,
                weak,
                certain: BTreeSet::new(),
                possible: BTreeSet::new(),
                pressure: false, unstored: BTreeMap::new(),
            });
        }
        Ok(MacroSim { corpus, fns, version: 0 })
    }

    fn snapshot_from_listing(st: &FnState, listing: &BTreeSet<String>, stored: Option<(&str, u64, usize)>) -> Snapshot {
        let mut s = Snapshot::default();
        for k in listing {
            let (tag, fp) = match stored {
                Some((sk, t, f)) if sk == k.as_str() => (t, f),
                _ => match st.model.entries.get(k) {
                    Some(e) => (e.tag, e.fp),
                    None => (0, 0),
                },
            };
            s.entries.insert(k.clone(), (tag, fp));
        }
        s
    }

    /// One call of function `fi` with the given arguments and script.
    pub fn call(&mut self, fi: usize, recv: Option<&ArgVal>, args: &[ArgVal], sc: &CallScript) -> CallInfo {
        let mut info = CallInfo::default();
        let corpus = self.corpus;
        self.version += 1;
        let ver = self.version;
        let st = &mut self.fns[fi];
        let d = st.d;
        let cfg = st.model.cfg.clone();
        let key = key_of(d, recv, args);
        info.key = key.clone();
        let now = vrt::clock::now_ns();
        let before_entry: Option<MEntry> = st.model.entries.get(&key).cloned();
        let cached_ret: Option<Ret> = st.values.get(&key).cloned();
        let cls: Option<Exp> = before_entry.as_ref().map(|e| cfg.exp_class(e, now));

        let obs = match do_call(&corpus, d, recv, args, sc, ver) {
            Ok(o) => o,
            Err(msg) => {
                info.panicked = Some(msg);
                return info;
            }
        };
        st.calls += 1;
        st.executions += obs.executed as u64;
        info.executed = obs.executed > 0;

        let fresh_str = twin_value(d, recv, args, ver);
        let fresh_ret = if d.is_result() {
            Ret::Res(if sc.ok { Ok(fresh_str) } else { Err(fresh_str) })
        } else {
            Ret::Str(fresh_str)
        };
        info.was_err = obs.executed > 0 && d.is_result() && !sc.ok;
        let inv_calls: Vec<&PredCall> = obs.preds.iter().filter(|p| p.kind == 'i').collect();
        let cif_calls: Vec<&PredCall> = obs.preds.iter().filter(|p| p.kind == 'c').collect();
        let found_obs = obs.executed == 0 || !inv_calls.is_empty();
        info.found = found_obs;

        if obs.executed > 1 {
            info.findings.push(l2("body-ran-twice", d.id, "at most one execution per call".into(), format!("{} executions", obs.executed)));
        }

        // --- thread scope without listing -------------------------------------------------
        let listing = if d.flavour == Flavour::Thread { None } else { list_keys(d.cache_name) };

        if d.flavour == Flavour::Thread {
            if st.weak {
                // weak mode: victim-independent consequences only
                let must = st.certain.contains(&key) && matches!(cls, Some(Exp::MustServe));
                let may = st.possible.contains(&key) && !matches!(cls, Some(Exp::MustExpire) | None);
                if must && !found_obs {
                    info.findings.push(l2("miss-present", d.id, format!("{key:?} must be cached (no eviction can have happened)"), "the body ran".into()));
                }
                if !may && found_obs {
                    info.findings.push(l2("hit-absent", d.id, format!("{key:?} cannot be cached"), "served from the cache".into()));
                }
            } else {
                match cls {
                    Some(Exp::MustServe) if !found_obs => {
                        info.findings.push(l2("miss-present", d.id, format!("{key:?} is cached in this thread: {}", crate::model::describe_entries(&st.model.entries, now)), "the body ran".into()))
                    }
                    None | Some(Exp::MustExpire) if found_obs => info.findings.push(l2(
                        if cls.is_none() { "hit-absent" } else { "served-expired" },
                        d.id,
                        format!("{key:?} is not cached in this thread: {}", crate::model::describe_entries(&st.model.entries, now)),
                        "served from the cache".into(),
                    )),
                    _ => {}
                }
            }
        } else {
            match cls {
                None if found_obs => info.findings.push(l2("hit-absent", d.id, format!("{key:?} is not cached"), "served from the cache".into())),
                Some(Exp::MustExpire) if found_obs => info.findings.push(l2("served-expired", d.id, format!("{key:?} is older than ttl {:?}", cfg.ttl), "served from the cache".into())),
                Some(Exp::MustServe) if !found_obs => info.findings.push(l2(
                    "miss-present",
                    d.id,
                    format!("{key:?} is cached and valid: {}", crate::model::describe_entries(&st.model.entries, now)),
                    "the body ran without consulting the cached value".into(),
                )),
                _ => {}
            }
        }

        // --- invalidate_on protocol ---------------------------------------------------------
        if d.invalidate_on {
            if found_obs {
                let ok_log = inv_calls.len() == 1 && inv_calls[0].key == key && cached_ret.as_ref().map(|c| *c == inv_calls[0].value).unwrap_or(true);
                if !ok_log {
                    info.findings.push(l2("inv-protocol", d.id, format!("one check call with ({key:?}, cached value {:?})", cached_ret), format!("{:?}", inv_calls)));
                }
                if sc.inv {
                    info.inv_stale = true;
                    if obs.executed == 0 {
                        info.findings.push(l2("stale-served", d.id, "the check returned true: the body runs again".into(), format!("returned {:?} without running the body", obs.ret)));
                    }
                } else if obs.executed != 0 {
                    info.findings.push(l2("valid-recomputed", d.id, "the check returned false: served from the cache".into(), "the body ran".into()));
                }
            } else if !inv_calls.is_empty() {
                info.findings.push(l2("inv-protocol", d.id, "no check call on a miss".into(), format!("{:?}", inv_calls)));
            }
        } else if !inv_calls.is_empty() {
            info.findings.push(l2("inv-protocol", d.id, "no invalidate_on configured".into(), format!("{:?}", inv_calls)));
        }

        // --- return value ---------------------------------------------------------------------
        if obs.executed == 0 {
            if let Some(c) = &cached_ret {
                if *c != obs.ret {
                    info.findings.push(l2("ret-value", d.id, format!("the value stored last for {key:?}: {:?}", c), format!("{:?}", obs.ret)));
                    if let Some((u, clause)) = st.unstored.get(&key) {
                        if *u == obs.ret {
                            info.findings.push(l2(clause, d.id, format!("the result {:?} of an earlier call was not to be stored; {key:?} still holds {:?}", u, c), format!("served {:?}", obs.ret)));
                        }
                    }
                }
            } else {
                // served although the model holds nothing: it must at least be a value of this function and arguments
                let own_prefix = format!("F{}v", d.id);
                let enc_part = fresh_ret.inner().split(':').nth(1).unwrap_or("").to_string();
                if !obs.ret.inner().starts_with(&own_prefix) || !obs.ret.inner().contains(&enc_part) {
                    info.findings.push(l2("ret-value", d.id, format!("a value of function {} for {key:?}", d.fn_name), format!("{:?}", obs.ret)));
                }
            }
        } else if obs.ret != fresh_ret {
            info.findings.push(l2("ret-value", d.id, format!("{:?}", fresh_ret), format!("{:?}", obs.ret)));
        }

        // --- cache_if protocol ---------------------------------------------------------------
        if d.cache_if {
            if obs.executed > 0 {
                let ok_log = cif_calls.len() == 1 && cif_calls[0].key == key && cif_calls[0].value == fresh_ret;
                if !ok_log {
                    info.findings.push(l2("cif-protocol", d.id, format!("one predicate call with ({key:?}, {:?})", fresh_ret), format!("{:?}", cif_calls)));
                }
                if !sc.cif {
                    info.cif_rejected = true;
                }
            } else if !cif_calls.is_empty() {
                info.findings.push(l2("cif-protocol", d.id, "no predicate call on a hit".into(), format!("{:?}", cif_calls)));
            }
        } else if !cif_calls.is_empty() {
            info.findings.push(l2("cif-protocol", d.id, "no cache_if configured".into(), format!("{:?}", cif_calls)));
        }

        // --- store decision (documented wrapper semantics) ----------------------------------
        let store_expected = obs.executed > 0
            && if d.cache_if {
                sc.cif && (d.flavour == Flavour::Async || !d.is_result() || sc.ok)
            } else {
                !d.is_result() || sc.ok
            };
        info.stored_expected = store_expected;
        if obs.executed > 0 {
            if store_expected {
                st.unstored.remove(&key);
            } else {
                st.unstored.insert(key.clone(), (fresh_ret.clone(), if d.is_result() && !sc.ok { "err-cached" } else { "rejected-cached" }));
            }
        }
        let (tag, fp) = (ret_tag(&fresh_ret), ret_fp(&fresh_ret));
        let mem_aware = d.max_memory.is_some();

        // --- statistics: one count per lookup, hit iff an unexpired entry was found ---------
        if found_obs {
            st.hits += 1;
        } else {
            st.misses += 1;
        }

        match (&listing, d.flavour) {
            (Some(listing), _) => {
                let got = if found_obs {
                    Some(if obs.executed == 0 { ret_tag(&obs.ret) } else { inv_calls.first().map(|p| ret_tag(&p.value)).unwrap_or(0) })
                } else {
                    None
                };
                let mut sinfo = StepInfo::default();
                if store_expected {
                    // synthesize the state between lookup and store: only the key itself may have been purged
                    let mut mid: BTreeSet<String> = st.model.entries.keys().cloned().collect();
                    if !found_obs {
                        mid.remove(&key);
                    }
                    let mid_snap = Self::snapshot_from_listing(st, &mid, None);
                    st.model.lookup(&key, got, &mid_snap, now, &mut sinfo);
                    let snap = Self::snapshot_from_listing(st, listing, Some((&key, tag, fp)));
                    st.model.store(&key, tag, fp, mem_aware, &snap, now, &mut sinfo);
                    // the result had to be stored (wrapper semantics) but the key is not listed and
                    // no eviction explains its absence
                    if !listing.contains(&key) && sinfo.findings.iter().any(|f| matches!(f.clause, "count" | "mem-count")) {
                        info.findings.push(l2(
                            "not-stored",
                            d.id,
                            format!("{key:?} is stored by this call (result {:?}, cache_if verdict {}, policy / limits leave room)", fresh_ret, if d.cache_if { sc.cif.to_string() } else { "n/a".into() }),
                            format!("listing {:?}", listing),
                        ));
                    }
                    // a refresh after a stale verdict must not leave the stale entry behind,
                    // even when the fresh value is too large to be cached
                    if info.inv_stale && sinfo.oversize_rejected && listing.contains(&key) {
                        info.findings.push(l2(
                            "stale-survived-refresh",
                            d.id,
                            format!("the entry for {key:?} that the check rejected is gone after the refresh (the fresh value of {fp} bytes exceeds max_memory {:?} and is not cached)", d.max_memory),
                            format!("listing still holds {key:?}"),
                        ));
                    }
                } else {
                    // nothing may be stored by this call
                    let had = st.model.entries.contains_key(&key) && found_obs;
                    if listing.contains(&key) && !had {
                        let clause = if info.was_err { "err-cached" } else if info.cif_rejected { "rejected-cached" } else { "stored-unexpectedly" };
                        info.findings.push(l2(clause, d.id, format!("{key:?} not stored by this call"), format!("listing {:?}", listing)));
                    }
                    let snap = Self::snapshot_from_listing(st, listing, None);
                    st.model.lookup(&key, got, &snap, now, &mut sinfo);
                }
                for f in &sinfo.findings {
                    info.findings.push(L2Finding { clause: f.clause, fn_id: d.id, expected: f.expected.clone(), observed: f.observed.clone() });
                }
                info.step = sinfo;
                // keep the value map in line with the adopted model state
                if store_expected && st.model.entries.get(&key).map(|e| e.tag == tag).unwrap_or(false) {
                    st.values.insert(key.clone(), fresh_ret.clone());
                }
                let keys: BTreeSet<String> = st.model.entries.keys().cloned().collect();
                st.values.retain(|k, _| keys.contains(k));
            }
            (None, Flavour::Thread) => {
                if st.weak {
                    // possible / certain bookkeeping
                    if matches!(cls, Some(Exp::MustExpire)) {
                        st.certain.remove(&key);
                        st.possible.remove(&key);
                        st.model.entries.remove(&key);
                        st.values.remove(&key);
                    }
                    if found_obs && obs.executed == 0 {
                        if let Some(e) = st.model.entries.get_mut(&key) {
                            e.hits += 1;
                        }
                    }
                    if store_expected {
                        let seq = st.model.seq + 1;
                        st.model.seq = seq;
                        st.model.entries.insert(key.clone(), MEntry { tag, fp, birth_ns: now, hits: 0, store_seq: seq, use_seq: seq });
                        st.values.insert(key.clone(), fresh_ret.clone());
                        st.possible.insert(key.clone());
                        let over_limit = cfg.limit.map(|n| st.possible.len() > n).unwrap_or(false);
                        let total: usize = st.possible.iter().filter_map(|k| st.model.entries.get(k)).map(|e| e.fp).sum();
                        let over_mem = cfg.max_memory.map(|m| total > m).unwrap_or(false);
                        if over_limit || over_mem {
                            st.pressure = true;
                            st.certain.clear();
                            info.step.overflow = over_limit;
                            info.step.mem_evicted = over_mem;
                        } else if !st.pressure {
                            st.certain.insert(key.clone());
                        }
                    } else if obs.executed > 0 {
                        // executed but not stored: an existing entry for the key stays as it was
                    }
                } else {
                    // exact predictive model (FIFO / LRU: unique victims)
                    let mut sinfo = StepInfo::default();
                    let served = predict_lookup(&mut st.model, &key, now);
                    if served.is_none() {
                        st.values.remove(&key);
                    }
                    if store_expected {
                        predict_store(&mut st.model, &key, tag, fp, mem_aware, now, &mut sinfo);
                        if st.model.entries.contains_key(&key) {
                            st.values.insert(key.clone(), fresh_ret.clone());
                        }
                        let keys: BTreeSet<String> = st.model.entries.keys().cloned().collect();
                        st.values.retain(|k, _| keys.contains(k));
                    }
                    info.step = sinfo;
                }
            }
            (None, _) => {
                info.findings.push(l2("no-listing", d.id, "invalidate_with finds the cache after its first call".into(), format!("invalidate_with({:?}) returned false", d.cache_name)));
            }
        }

        // --- statistics registry -----------------------------------------------------------
        if d.flavour != Flavour::Thread {
            match stats_of(d.cache_name) {
                Some((h, m)) => {
                    if (h, m) != (st.hits, st.misses) {
                        info.findings.push(l2("stats", d.id, format!("hits {} misses {} under name {:?}", st.hits, st.misses, d.cache_name), format!("hits {} misses {}", h, m)));
                        st.hits = h;
                        st.misses = m;
                    }
                }
                None => info.findings.push(l2("stats", d.id, format!("statistics registered under {:?}", d.cache_name), "none".into())),
            }
        }
        info
    }

    /// `invalidate_with(name, |k| k in subset)` on function `fi`; `extra` are predicate-matching keys
    /// that are not stored.  Checks exactness and precision.
    pub fn invalidate_with(&mut self, fi: usize, subset: &BTreeSet<String>) -> Vec<L2Finding> {
        let mut out = Vec::new();
        let d = self.fns[fi].d;
        let before_others: Vec<(usize, Option<BTreeSet<String>>)> =
            self.fns.iter().enumerate().filter(|(i, s)| *i != fi && s.d.flavour != Flavour::Thread).map(|(i, s)| (i, list_keys(s.d.cache_name))).collect();
        let sub = subset.clone();
        let r = crate::infra::guarded(|| cachelito_core::invalidate_with(d.cache_name, move |k: &str| sub.contains(k)));
        let r = match r {
            Ok(r) => r,
            Err(m) => {
                out.push(l2("panic", d.id, "invalidate_with completes".into(), m));
                return out;
            }
        };
        let expected = used_ever().iter().any(|id| self.corpus.funcs.iter().any(|f| f.id == *id && f.cache_name == d.cache_name));
        if r != expected {
            out.push(l2("registry-count", d.id, format!("invalidate_with({:?}) = {}", d.cache_name, expected), format!("{}", r)));
        }
        let st = &mut self.fns[fi];
        let removed: Vec<String> = st.model.entries.keys().filter(|k| subset.contains(*k)).cloned().collect();
        st.model.forget(&removed);
        for k in &removed {
            st.values.remove(k);
        }
        if let Some(l) = list_keys(d.cache_name) {
            let exp: BTreeSet<String> = st.model.entries.keys().cloned().collect();
            if l != exp {
                out.push(l2("inv-exact", d.id, format!("exactly the matching keys {:?} removed, leaving {:?}", removed, exp), format!("listing {:?}", l)));
                // adopt the observed key set
                st.model.entries.retain(|k, _| l.contains(k));
                st.values.retain(|k, _| l.contains(k));
            }
        }
        for (i, before) in before_others {
            let after = list_keys(self.fns[i].d.cache_name);
            if after != before {
                out.push(l2("inv-precise", self.fns[i].d.id, format!("cache {:?} untouched: {:?}", self.fns[i].d.cache_name, before), format!("{:?}", after)));
            }
        }
        out
    }

    /// `invalidate_all_with(|name, key| ...)` with one subset per participating function.
    pub fn invalidate_all_with(&mut self, subsets: &BTreeMap<String, BTreeSet<String>>) -> Vec<L2Finding> {
        let mut out = Vec::new();
        let subs = subsets.clone();
        let r = crate::infra::guarded(|| cachelito_core::invalidate_all_with(move |name: &str, k: &str| subs.get(name).map(|s| s.contains(k)).unwrap_or(false)));
        let r = match r {
            Ok(r) => r,
            Err(m) => {
                out.push(l2("panic", 0, "invalidate_all_with completes".into(), m));
                return out;
            }
        };
        let expected = used_ever().len();
        if r != expected {
            out.push(l2("registry-count-group", 0, format!("invalidate_all_with = {} (caches used so far)", expected), format!("{}", r)));
        }
        for st in self.fns.iter_mut() {
            if st.d.flavour == Flavour::Thread {
                continue;
            }
            let empty = BTreeSet::new();
            let sub = subsets.get(st.d.cache_name).unwrap_or(&empty);
            let removed: Vec<String> = st.model.entries.keys().filter(|k| sub.contains(*k)).cloned().collect();
            st.model.forget(&removed);
            for k in &removed {
                st.values.remove(k);
            }
            if let Some(l) = list_keys(st.d.cache_name) {
                let exp: BTreeSet<String> = st.model.entries.keys().cloned().collect();
                if l != exp {
                    out.push(l2("inv-exact", st.d.id, format!("exactly the matching keys {:?} removed, leaving {:?}", removed, exp), format!("listing {:?}", l)));
                }
            }
        }
        out
    }

    /// Group invalidation: kind 't' tag, 'e' event, 'd' dependency, 'n' cache name.
    pub fn invalidate_group(&mut self, kind: char, s: &str) -> Vec<L2Finding> {
        let mut out = Vec::new();
        let s_owned = s.to_string();
        let r = crate::infra::guarded(|| match kind {
            't' => cachelito_core::invalidate_by_tag(&s_owned) as i64,
            'e' => cachelito_core::invalidate_by_event(&s_owned) as i64,
            'd' => cachelito_core::invalidate_by_dependency(&s_owned) as i64,
            _ => cachelito_core::invalidate_cache(&s_owned) as i64,
        });
        let r = match r {
            Ok(r) => r,
            Err(m) => {
                out.push(l2("panic", 0, "group invalidation completes".into(), m));
                return out;
            }
        };
        let used = used_ever();
        let matches = |f: &FnDesc| -> bool {
            f.flavour != Flavour::Thread
                && f.declares_metadata()
                && match kind {
                    't' => f.tags.iter().any(|t| *t == s),
                    'e' => f.events.iter().any(|t| *t == s),
                    'd' => f.deps.iter().any(|t| *t == s),
                    _ => f.cache_name == s,
                }
        };
        let expected: i64 = self.corpus.funcs.iter().filter(|f| used.contains(&f.id) && matches(f)).count() as i64;
        if r != expected {
            out.push(l2("registry-count-group", 0, format!("{} matching used caches for {}={:?}", expected, kind, s), format!("returned {}", r)));
        }
        for st in self.fns.iter_mut() {
            if st.d.flavour == Flavour::Thread {
                continue;
            }
            let m = matches(st.d) && used.contains(&st.d.id);
            if m {
                st.model.entries.clear();
                st.values.clear();
            }
            if let Some(l) = list_keys(st.d.cache_name) {
                let exp: BTreeSet<String> = st.model.entries.keys().cloned().collect();
                if l != exp {
                    if m {
                        out.push(l2("registry-not-emptied", st.d.id, format!("cache {:?} empty after {}={:?}", st.d.cache_name, kind, s), format!("listing {:?}", l)));
                    } else {
                        out.push(l2("inv-precise", st.d.id, format!("cache {:?} untouched by {}={:?}: {:?}", st.d.cache_name, kind, s, exp), format!("listing {:?}", l)));
                    }
                }
            }
        }
        out
    }

    /// `stats_registry::reset(name)` of function `fi`: zeroes that cache only.
    pub fn stats_reset(&mut self, fi: usize) -> Vec<L2Finding> {
        let mut out = Vec::new();
        let name = self.fns[fi].d.cache_name;
        let r = cachelito_core::stats_registry::reset(name);
        let used = used_ever().contains(&self.fns[fi].d.id);
        if r != used {
            out.push(l2("stats", self.fns[fi].d.id, format!("reset({:?}) = {}", name, used), format!("{}", r)));
        }
        if r {
            self.fns[fi].hits = 0;
            self.fns[fi].misses = 0;
        }
        out.extend(self.stats_check_all());
        out
    }

    pub fn stats_check_all(&self) -> Vec<L2Finding> {
        let mut out = Vec::new();
        for st in &self.fns {
            if st.d.flavour == Flavour::Thread || !used_ever().contains(&st.d.id) {
                continue;
            }
            match stats_of(st.d.cache_name) {
                Some((h, m)) if (h, m) == (st.hits, st.misses) => {}
                other => out.push(l2("stats", st.d.id, format!("hits {} misses {} under {:?}", st.hits, st.misses, st.d.cache_name), format!("{:?}", other))),
            }
        }
        out
    }
}

/// Exact prediction for sync caches with unique victims (FIFO / LRU).
pub fn predict_lookup(m: &mut Model, key: &str, now: i64) -> Option<u64> {
    let e = m.entries.get(key)?.clone();
    match m.cfg.exp_class(&e, now) {
        Exp::MustExpire => {
            m.entries.remove(key);
            None
        }
        _ => {
            m.seq += 1;
            let s = m.seq;
            let x = m.entries.get_mut(key).unwrap();
            x.hits += 1;
            x.use_seq = s;
            Some(x.tag)
        }
    }
}

pub fn predict_store(m: &mut Model, key: &str, tag: u64, fp: usize, mem_aware: bool, now: i64, info: &mut StepInfo) {
    let max_mem = if mem_aware { m.cfg.max_memory } else { None };
    if let Some(mm) = max_mem {
        if fp > mm {
            m.entries.remove(key);
            info.oversize_rejected = true;
            return;
        }
    }
    let existed = m.entries.contains_key(key);
    m.seq += 1;
    let s = m.seq;
    m.entries.insert(key.to_string(), MEntry { tag, fp, birth_ns: now, hits: 0, store_seq: s, use_seq: s });
    if let Some(mm) = max_mem {
        loop {
            let total: usize = m.entries.values().map(|e| e.fp).sum();
            if total <= mm {
                if total == mm {
                    info.exact_fit = true;
                }
                break;
            }
            info.mem_evicted = true;
            let v = m.cfg.allowed_victims(&m.entries, now);
            let Some(k) = v.iter().next().cloned() else { break };
            m.entries.remove(&k);
            info.removed.push(k);
        }
    }
    if let Some(n) = m.cfg.limit {
        if m.entries.len() > n {
            if !existed {
                info.overflow = true;
            }
            let v = m.cfg.allowed_victims(&m.entries, now);
            if let Some(k) = v.iter().next().cloned() {
                m.entries.remove(&k);
                info.removed.push(k);
            }
        }
    }
    let _ = hash_of(&0u8);
}
