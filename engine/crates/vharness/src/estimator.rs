//! C05 supplement: differential on `MemoryEstimator` over nested value shapes.
//! Independent definition: footprint = inline size + heap the value owns, where the owned
//! heap is defined recursively (`Heap`), without the "estimate minus inline size" arithmetic
//! the library uses.

use crate::infra::{hash_of, CaseOut, Dec, Tier, Violation};
use cachelito_core::MemoryEstimator;
use serde_json::{json, Value};
use std::mem::size_of;

pub trait Heap {
    /// bytes of heap memory this value owns (excluding its own inline size)
    fn heap(&self) -> usize;
}
macro_rules! no_heap {
    ($($t:ty),*) => {$( impl Heap for $t { fn heap(&self) -> usize { 0 } } )*};
}
no_heap!(u8, u16, u32, u64, u128, usize, i8, i16, i32, i64, i128, isize, f32, f64, bool, char, ());
impl Heap for String {
    fn heap(&self) -> usize {
        self.capacity()
    }
}
impl<T: Heap> Heap for Vec<T> {
    fn heap(&self) -> usize {
        self.capacity() * size_of::<T>() + self.iter().map(|x| x.heap()).sum::<usize>()
    }
}
impl<T: Heap> Heap for Option<T> {
    fn heap(&self) -> usize {
        self.as_ref().map(|x| x.heap()).unwrap_or(0)
    }
}
impl<T: Heap, E: Heap> Heap for Result<T, E> {
    fn heap(&self) -> usize {
        match self {
            Ok(x) => x.heap(),
            Err(e) => e.heap(),
        }
    }
}
impl<A: Heap, B: Heap> Heap for (A, B) {
    fn heap(&self) -> usize {
        self.0.heap() + self.1.heap()
    }
}
impl<A: Heap, B: Heap, C: Heap> Heap for (A, B, C) {
    fn heap(&self) -> usize {
        self.0.heap() + self.1.heap() + self.2.heap()
    }
}
impl<T: Heap> Heap for Box<T> {
    fn heap(&self) -> usize {
        size_of::<T>() + (**self).heap()
    }
}
// shared pointers: the pointee and what it owns (the two reference counters are not counted)
impl<T: Heap> Heap for std::sync::Arc<T> {
    fn heap(&self) -> usize {
        size_of::<T>() + (**self).heap()
    }
}
impl<T: Heap> Heap for std::rc::Rc<T> {
    fn heap(&self) -> usize {
        size_of::<T>() + (**self).heap()
    }
}

/// A user type with its own estimator and no niche (integers only), so that `Option<Blob>`
/// is larger than `Blob`: it reports `bytes` of owned memory beyond its inline size.
#[derive(Debug, Clone)]
pub struct Blob {
    pub id: u64,
    pub bytes: usize,
}
impl MemoryEstimator for Blob {
    fn estimate_memory(&self) -> usize {
        size_of::<Self>() + self.bytes
    }
}
impl Heap for Blob {
    fn heap(&self) -> usize {
        self.bytes
    }
}
fn gb(d: &mut Dec) -> Blob {
    Blob { id: d.u32() as u64, bytes: [0usize, 1, 7, 8, 84, 100, 1000][d.choose(7)] }
}

fn footprint<T: Heap>(v: &T) -> usize {
    size_of::<T>() + v.heap()
}

fn gs(d: &mut Dec) -> String {
    let len = [0usize, 1, 3, 8, 17, 40][d.choose(6)];
    let extra = if d.chance(1, 3) { d.choose(24) } else { 0 };
    let mut s = String::with_capacity(len + extra);
    for i in 0..len {
        s.push((b'a' + (i % 26) as u8) as char);
    }
    s
}
fn gv<T>(d: &mut Dec, mut f: impl FnMut(&mut Dec) -> T) -> Vec<T> {
    let len = d.choose(4);
    let extra = if d.chance(1, 3) { d.choose(6) } else { 0 };
    let mut v = Vec::with_capacity(len + extra);
    for _ in 0..len {
        v.push(f(d));
    }
    v
}

fn check<T: Heap + MemoryEstimator + std::fmt::Debug>(shape: &'static str, v: T) -> (String, usize, usize, &'static str) {
    (format!("{:?}", v).chars().take(120).collect(), v.estimate_memory(), footprint(&v), shape)
}

const N_SHAPES: usize = 41;

fn build(d: &mut Dec) -> (String, usize, usize, &'static str) {
    match d.choose(N_SHAPES) {
        0 => check("u64", d.u64()),
        1 => check("(bool, char)", (d.chance(1, 2), 'x')),
        2 => check("String", gs(d)),
        3 => check("Vec<u8>", gv(d, |d| d.byte())),
        4 => check("Vec<u64>", gv(d, |d| d.u64())),
        5 => check("Vec<String>", gv(d, gs)),
        6 => check("Vec<Vec<u32>>", gv(d, |d| gv(d, |d| d.u32()))),
        7 => check("Option<u32>", if d.chance(1, 2) { Some(d.u32()) } else { None }),
        8 => check("Option<String>", if d.chance(2, 3) { Some(gs(d)) } else { None }),
        9 => check("Option<Vec<String>>", if d.chance(2, 3) { Some(gv(d, gs)) } else { None }),
        10 => check::<Result<String, u32>>("Result<String,u32>", if d.chance(1, 2) { Ok(gs(d)) } else { Err(d.u32()) }),
        11 => check::<Result<u32, String>>("Result<u32,String>", if d.chance(1, 2) { Ok(d.u32()) } else { Err(gs(d)) }),
        12 => check::<Result<Vec<u8>, String>>("Result<Vec<u8>,String>", if d.chance(1, 2) { Ok(gv(d, |d| d.byte())) } else { Err(gs(d)) }),
        13 => check("(String, String)", (gs(d), gs(d))),
        14 => check("(u8, String)", (d.byte(), gs(d))),
        15 => check("(String, u32, Vec<u8>)", (gs(d), d.u32(), gv(d, |d| d.byte()))),
        16 => check("Box<u64>", Box::new(d.u64())),
        17 => check("Box<Vec<String>>", Box::new(gv(d, gs))),
        18 => check("Vec<Option<String>>", gv(d, |d| if d.chance(2, 3) { Some(gs(d)) } else { None })),
        19 => check::<Vec<Result<u32, String>>>("Vec<Result<u32,String>>", gv(d, |d| if d.chance(1, 2) { Ok(d.u32()) } else { Err(gs(d)) })),
        20 => check::<Option<Result<String, String>>>("Option<Result<String,String>>", if d.chance(3, 4) { Some(if d.chance(1, 2) { Ok(gs(d)) } else { Err(gs(d)) }) } else { None }),
        21 => check::<(u32, Result<Vec<u8>, String>)>("(u32, Result<Vec<u8>,String>)", (d.u32(), if d.chance(1, 2) { Ok(gv(d, |d| d.byte())) } else { Err(gs(d)) })),
        22 => check("Option<Box<String>>", if d.chance(2, 3) { Some(Box::new(gs(d))) } else { None }),
        23 => check("Vec<(String, u8)>", gv(d, |d| (gs(d), d.byte()))),
        24 => check("Box<(String, Vec<u32>)>", Box::new((gs(d), gv(d, |d| d.u32())))),
        25 => check("f32", f32::from_bits(d.u32() & 0x7f7f_ffff)),
        26 => check("(i8, u128)", (d.byte() as i8, d.u64() as u128)),
        27 => check("()", ()),
        28 => check("Arc<String>", std::sync::Arc::new(gs(d))),
        29 => check("Rc<Vec<String>>", std::rc::Rc::new(gv(d, gs))),
        30 => check("Option<Arc<String>>", if d.chance(2, 3) { Some(std::sync::Arc::new(gs(d))) } else { None }),
        31 => check("Vec<Box<String>>", gv(d, |d| Box::new(gs(d)))),
        32 => check("(String, Option<Vec<u64>>, Result<String, String>)", (gs(d), if d.chance(1, 2) { Some(gv(d, |d| d.u64())) } else { None }, if d.chance(1, 2) { Ok::<String, String>(gs(d)) } else { Err(gs(d)) })),
        33 => check("Blob (user type)", gb(d)),
        34 => check("Option<Blob>", if d.chance(3, 4) { Some(gb(d)) } else { None }),
        35 => check("Vec<Option<Blob>>", gv(d, |d| if d.chance(3, 4) { Some(gb(d)) } else { None })),
        36 => check("(Blob, u8)", (gb(d), d.byte())),
        37 => check::<Result<Blob, u32>>("Result<Blob,u32>", if d.chance(1, 2) { Ok(gb(d)) } else { Err(d.u32()) }),
        38 => check("Option<(Blob, String)>", if d.chance(3, 4) { Some((gb(d), gs(d))) } else { None }),
        39 => check("Box<Option<Blob>>", Box::new(if d.chance(3, 4) { Some(gb(d)) } else { None })),
        _ => check::<Result<(String, String), Vec<String>>>("Result<(String,String),Vec<String>>", if d.chance(1, 2) { Ok((gs(d), gs(d))) } else { Err(gv(d, gs)) }),
    }
}

pub fn describe(bytes: &[u8], _t: Tier) -> Value {
    let mut d = Dec::new(bytes);
    let (repr, est, fp, shape) = build(&mut d);
    json!({"type": shape, "value": repr, "estimate_memory": est, "inline_plus_owned_heap": fp})
}

pub fn run_case(bytes: &[u8], _t: Tier) -> CaseOut {
    let mut d = Dec::new(bytes);
    let (repr, est, fp, shape) = build(&mut d);
    let mut out = CaseOut { key: hash_of(&(repr.clone(), shape)), ..CaseOut::default() };
    out.nontrivial = fp > 0 && !matches!(shape, "u64" | "(bool, char)" | "Box<u64>" | "Option<u32>" | "f32" | "(i8, u128)" | "()");
    out.classes.push("shape_checked");
    if est != fp {
        out.violation = Some(Violation {
            signature: format!("C05:estimator:{}", shape.replace(' ', "")),
            clause: "estimator".into(),
            step: 0,
            expected: format!("{}: inline size + owned heap capacity = {} bytes for {}", shape, fp, repr),
            observed: format!("estimate_memory() = {}", est),
        });
    }
    out
}
