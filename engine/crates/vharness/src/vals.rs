//! Value types for the layer-1 adapters, each with an *independent* footprint function
//! (inline size + owned heap capacity, recursively) and harness-owned storage statics of the
//! exact types the cachelito-core constructors take.

use cachelito_core::{CacheEntry, CacheStats, MemoryEstimator};
use once_cell::sync::Lazy;
use parking_lot::{Mutex, RwLock};
use serde::Serialize;
use std::cell::RefCell;
use std::collections::{HashMap, VecDeque};
use std::hash::Hash;
use std::thread::LocalKey;

#[derive(Clone, Copy, Debug, Hash, PartialEq, Eq, Serialize)]
pub struct ValDesc {
    /// payload bytes (mode 0) or target footprint in bytes (mode 1)
    pub size: u16,
    pub target_fp: bool,
    pub extra_cap: u8,
    pub variant: u8,
    pub salt: u16,
}

pub trait Stores: Sized + 'static {
    fn gmap() -> &'static Lazy<RwLock<HashMap<String, CacheEntry<Self>>>>;
    fn gorder() -> &'static Lazy<Mutex<VecDeque<String>>>;
    fn gstats() -> &'static Lazy<CacheStats>;
    fn tmap() -> &'static LocalKey<RefCell<HashMap<String, CacheEntry<Self>>>>;
    fn torder() -> &'static LocalKey<RefCell<VecDeque<String>>>;
}

macro_rules! stores {
    ($m:ident, $t:ty) => {
        mod $m {
            use super::*;
            pub static MAP: Lazy<RwLock<HashMap<String, CacheEntry<$t>>>> = Lazy::new(|| RwLock::new(HashMap::new()));
            pub static ORDER: Lazy<Mutex<VecDeque<String>>> = Lazy::new(|| Mutex::new(VecDeque::new()));
            pub static STATS: Lazy<CacheStats> = Lazy::new(CacheStats::new);
            thread_local! {
                pub static TMAP: RefCell<HashMap<String, CacheEntry<$t>>> = RefCell::new(HashMap::new());
                pub static TORDER: RefCell<VecDeque<String>> = RefCell::new(VecDeque::new());
            }
        }
        impl Stores for $t {
            fn gmap() -> &'static Lazy<RwLock<HashMap<String, CacheEntry<Self>>>> {
                &$m::MAP
            }
            fn gorder() -> &'static Lazy<Mutex<VecDeque<String>>> {
                &$m::ORDER
            }
            fn gstats() -> &'static Lazy<CacheStats> {
                &$m::STATS
            }
            fn tmap() -> &'static LocalKey<RefCell<HashMap<String, CacheEntry<Self>>>> {
                &$m::TMAP
            }
            fn torder() -> &'static LocalKey<RefCell<VecDeque<String>>> {
                &$m::TORDER
            }
        }
    };
}

/// User type with a hand-written estimator: the cache must use what it reports.
#[derive(Clone, Debug, PartialEq, Eq, Hash)]
pub struct Blob {
    pub claimed: usize,
    pub data: Vec<u8>,
}

impl MemoryEstimator for Blob {
    fn estimate_memory(&self) -> usize {
        self.claimed
    }
}

stores!(st_string, String);
stores!(st_vecu32, Vec<u32>);
stores!(st_vecstr, Vec<String>);
stores!(st_optstr, Option<String>);
stores!(st_res, Result<String, String>);
stores!(st_tuple, (String, Vec<u8>));
stores!(st_box, Box<String>);
stores!(st_blob, Blob);

pub const VTYPE_NAMES: [&str; 8] = ["String", "Vec<u32>", "Vec<String>", "Option<String>", "Result<String,String>", "(String,Vec<u8>)", "Box<String>", "Blob(user estimator)"];

pub trait HVal: Clone + PartialEq + std::fmt::Debug + Hash + MemoryEstimator + Stores + 'static {
    const IS_RESULT: bool = false;
    fn build(d: &ValDesc) -> Self;
    /// inline size + owned heap capacity, recursively (or what a user estimator reports)
    fn footprint(&self) -> usize;
    fn is_err(&self) -> bool {
        false
    }
}

fn text(len: usize, extra: usize, salt: u16) -> String {
    let mut s = String::with_capacity(len + extra);
    let mut x = salt as usize;
    for i in 0..len {
        if i < 4 {
            s.push((b'a' + (x % 26) as u8) as char);
            x /= 26;
        } else {
            s.push((b'a' + (i % 26) as u8) as char);
        }
    }
    s
}

fn payload(d: &ValDesc, inline: usize) -> usize {
    if d.target_fp {
        (d.size as usize).saturating_sub(inline)
    } else {
        d.size as usize
    }
}

fn extra(d: &ValDesc) -> usize {
    if d.target_fp {
        0
    } else {
        d.extra_cap as usize
    }
}

impl HVal for String {
    fn build(d: &ValDesc) -> Self {
        text(payload(d, std::mem::size_of::<String>()), extra(d), d.salt)
    }
    fn footprint(&self) -> usize {
        std::mem::size_of::<String>() + self.capacity()
    }
}

impl HVal for Vec<u32> {
    fn build(d: &ValDesc) -> Self {
        let n = payload(d, std::mem::size_of::<Vec<u32>>()) / 4;
        let mut v = Vec::with_capacity(n + extra(d) / 4);
        for i in 0..n {
            v.push(d.salt as u32 ^ (i as u32).wrapping_mul(2654435761));
        }
        v
    }
    fn footprint(&self) -> usize {
        std::mem::size_of::<Vec<u32>>() + self.capacity() * std::mem::size_of::<u32>()
    }
}

impl HVal for Vec<String> {
    fn build(d: &ValDesc) -> Self {
        let k = 1 + (d.variant % 3) as usize;
        let inline = std::mem::size_of::<Vec<String>>() + k * std::mem::size_of::<String>();
        let p = payload(d, inline);
        let mut v = Vec::with_capacity(k);
        for i in 0..k {
            let part = if i + 1 == k { p - (p / k) * (k - 1) } else { p / k };
            v.push(text(part, if i == 0 { extra(d) } else { 0 }, d.salt.wrapping_add(i as u16)));
        }
        v
    }
    fn footprint(&self) -> usize {
        std::mem::size_of::<Vec<String>>() + self.capacity() * std::mem::size_of::<String>() + self.iter().map(|s| s.capacity()).sum::<usize>()
    }
}

impl HVal for Option<String> {
    fn build(d: &ValDesc) -> Self {
        if d.variant % 4 == 3 {
            None
        } else {
            Some(text(payload(d, std::mem::size_of::<Option<String>>()), extra(d), d.salt))
        }
    }
    fn footprint(&self) -> usize {
        std::mem::size_of::<Option<String>>() + self.as_ref().map(|s| s.capacity()).unwrap_or(0)
    }
}

impl HVal for Result<String, String> {
    const IS_RESULT: bool = true;
    fn build(d: &ValDesc) -> Self {
        let s = text(payload(d, std::mem::size_of::<Result<String, String>>()), extra(d), d.salt);
        if d.variant % 4 == 3 {
            Err(s)
        } else {
            Ok(s)
        }
    }
    fn footprint(&self) -> usize {
        std::mem::size_of::<Result<String, String>>()
            + match self {
                Ok(s) => s.capacity(),
                Err(s) => s.capacity(),
            }
    }
    fn is_err(&self) -> bool {
        self.is_err()
    }
}

impl HVal for (String, Vec<u8>) {
    fn build(d: &ValDesc) -> Self {
        let p = payload(d, std::mem::size_of::<(String, Vec<u8>)>());
        let a = p / 2;
        let b = p - a;
        let mut v = Vec::with_capacity(b + extra(d));
        for i in 0..b {
            v.push((d.salt as usize + i) as u8);
        }
        (text(a, 0, d.salt), v)
    }
    fn footprint(&self) -> usize {
        std::mem::size_of::<(String, Vec<u8>)>() + self.0.capacity() + self.1.capacity()
    }
}

impl HVal for Box<String> {
    fn build(d: &ValDesc) -> Self {
        Box::new(text(payload(d, std::mem::size_of::<Box<String>>() + std::mem::size_of::<String>()), extra(d), d.salt))
    }
    fn footprint(&self) -> usize {
        std::mem::size_of::<Box<String>>() + std::mem::size_of::<String>() + self.capacity()
    }
}

impl HVal for Blob {
    fn build(d: &ValDesc) -> Self {
        // the claimed size is what the estimator reports; the real data is unrelated
        Blob { claimed: d.size as usize, data: vec![d.salt as u8; (d.variant % 5) as usize] }
    }
    fn footprint(&self) -> usize {
        self.claimed
    }
}
