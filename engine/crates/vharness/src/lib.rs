//! cachelito verification harness (see /verif/DESIGN.md).
pub mod core_l1;
pub mod infra;
pub mod model;
pub mod props;
pub mod vals;
