//! cachelito verification harness (see /verif/DESIGN.md).
pub mod attrs;
pub mod c02;
pub mod c19prog;
pub mod c20;
pub mod cli;
pub mod core_l1;
pub mod estimator;
pub mod infra;
pub mod keys;
pub mod l2_checks;
pub mod macro_l2;
pub mod model;
pub mod props;
pub mod regress;
pub mod sched_checks;
pub mod vals;
