//! Shared plumbing: byte decoders, seeding, proptest driving, worker fan-out, evidence,
//! replay files, known findings.

use proptest::strategy::{Strategy, ValueTree};
use proptest::test_runner::{Config, RngSeed, TestCaseError, TestError, TestRunner};
use serde_json::{json, Value};
use std::collections::{BTreeMap, HashSet};
use std::hash::{Hash, Hasher};
use std::io::Write;
use std::path::{Path, PathBuf};

pub const VERIF_ROOT: &str = "/verif";

thread_local! {
    /// true while a cachelito operation runs under catch_unwind (its panics are data, not noise)
    pub static IN_OP: std::cell::Cell<bool> = const { std::cell::Cell::new(false) };
}

/// Panic hook: silent for panics inside guarded cachelito operations, loud otherwise.
pub fn install_panic_hook() {
    let default = std::panic::take_hook();
    std::panic::set_hook(Box::new(move |info| {
        if !IN_OP.with(|q| q.get()) {
            default(info);
        }
    }));
}

pub fn install_panic_hook_once() {
    static ONCE: std::sync::Once = std::sync::Once::new();
    ONCE.call_once(install_panic_hook);
}

/// Run a cachelito operation, turning a panic into `Err(message)`.
pub fn guarded<T>(f: impl FnOnce() -> T) -> Result<T, String> {
    IN_OP.with(|q| q.set(true));
    let r = std::panic::catch_unwind(std::panic::AssertUnwindSafe(f));
    IN_OP.with(|q| q.set(false));
    r.map_err(|p| {
        if let Some(s) = p.downcast_ref::<&str>() {
            s.to_string()
        } else if let Some(s) = p.downcast_ref::<String>() {
            s.clone()
        } else {
            "<non-string panic>".to_string()
        }
    })
}

#[derive(Clone, Copy, Debug, PartialEq, Eq)]
pub enum Tier {
    Quick,
    Thorough,
}

impl Tier {
    pub fn name(&self) -> &'static str {
        match self {
            Tier::Quick => "quick",
            Tier::Thorough => "thorough",
        }
    }
    pub fn parse(s: &str) -> Option<Tier> {
        match s {
            "quick" => Some(Tier::Quick),
            "thorough" => Some(Tier::Thorough),
            _ => None,
        }
    }
    pub fn workers(&self) -> usize {
        match self {
            Tier::Quick => 8,
            Tier::Thorough => 16,
        }
    }
}

pub fn splitmix64(x: u64) -> u64 {
    let mut z = x.wrapping_add(0x9E3779B97F4A7C15);
    z = (z ^ (z >> 30)).wrapping_mul(0xBF58476D1CE4E5B9);
    z = (z ^ (z >> 27)).wrapping_mul(0x94D049BB133111EB);
    z ^ (z >> 31)
}

pub fn mix(seed: u64, a: u64) -> u64 {
    splitmix64(splitmix64(seed) ^ a.wrapping_mul(0xD6E8FEB86659FD93))
}

pub fn verif_seed() -> u64 {
    let s = std::env::var("VERIF_SEED").ok().and_then(|s| s.trim().parse::<i128>().ok()).unwrap_or(0);
    let s = s as u64;
    if s == 0 {
        0x5EED_CAC4_E117_0001
    } else {
        s
    }
}

pub fn hash_of<T: Hash>(t: &T) -> u64 {
    let mut h = std::collections::hash_map::DefaultHasher::new();
    t.hash(&mut h);
    h.finish()
}

pub fn str_hash(s: &str) -> u64 {
    // FNV-1a, stable across processes
    let mut h: u64 = 0xcbf29ce484222325;
    for b in s.as_bytes() {
        h ^= *b as u64;
        h = h.wrapping_mul(0x100000001b3);
    }
    h
}

// ---------------------------------------------------------------------------------------
// Monotone byte decoder: exhausted input reads as zeros = the simplest choice
// ---------------------------------------------------------------------------------------

pub struct Dec<'a> {
    bytes: &'a [u8],
    pub pos: usize,
}

impl<'a> Dec<'a> {
    pub fn new(bytes: &'a [u8]) -> Dec<'a> {
        Dec { bytes, pos: 0 }
    }
    pub fn byte(&mut self) -> u8 {
        let b = self.bytes.get(self.pos).copied().unwrap_or(0);
        self.pos += 1;
        b
    }
    /// uniform-ish choice in 0..n, monotone in the byte (n <= 256)
    pub fn choose(&mut self, n: usize) -> usize {
        debug_assert!(n >= 1 && n <= 256);
        (self.byte() as usize * n) >> 8
    }
    /// choice in 0..n for n up to 65536
    pub fn choose16(&mut self, n: usize) -> usize {
        let v = ((self.byte() as usize) << 8) | self.byte() as usize;
        (v * n) >> 16
    }
    /// true with probability num/den (false = the simplest choice)
    pub fn chance(&mut self, num: usize, den: usize) -> bool {
        let b = self.byte() as usize;
        b * den >= (den - num) * 256
    }
    /// weighted choice; index 0 is the simplest
    pub fn weighted(&mut self, weights: &[u32]) -> usize {
        let total: u32 = weights.iter().sum();
        let x = (self.byte() as u32 * total) >> 8;
        let mut acc = 0;
        for (i, w) in weights.iter().enumerate() {
            acc += w;
            if x < acc {
                return i;
            }
        }
        weights.len() - 1
    }
    pub fn u16(&mut self) -> u16 {
        ((self.byte() as u16) << 8) | self.byte() as u16
    }
    pub fn u32(&mut self) -> u32 {
        ((self.u16() as u32) << 16) | self.u16() as u32
    }
    pub fn u64(&mut self) -> u64 {
        ((self.u32() as u64) << 32) | self.u32() as u64
    }
    pub fn rest(&mut self) -> &'a [u8] {
        let r = if self.pos < self.bytes.len() { &self.bytes[self.pos..] } else { &[] };
        self.pos = self.bytes.len();
        r
    }
    pub fn remaining(&self) -> usize {
        self.bytes.len().saturating_sub(self.pos)
    }
}

// ---------------------------------------------------------------------------------------
// Case results
// ---------------------------------------------------------------------------------------

#[derive(Clone, Debug)]
pub struct Violation {
    /// stable signature: clause + configuration class (never a concrete random input)
    pub signature: String,
    pub clause: String,
    pub step: usize,
    pub expected: String,
    pub observed: String,
}

#[derive(Clone, Debug, Default)]
pub struct CaseOut {
    pub nontrivial: bool,
    pub classes: Vec<&'static str>,
    pub violation: Option<Violation>,
    /// hash of the decoded case (distinctness)
    pub key: u64,
    /// a cachelito operation panicked and this check is not C16: rest of the case skipped
    pub aborted_foreign: bool,
    /// auxiliary data for custom stages (e.g. the scheduler's choice log)
    pub aux: String,
}

/// Run one case in a forked child: the child starts from the pristine process image (no
/// cache of any decorated function has been touched, nothing is registered), so cases cannot
/// leak state into each other and a replay in a fresh process sees exactly the same world.
/// A child that does not answer within the watchdog time is killed and reported as exit 2.
/// Run `f` in a forked child (pristine copy of this process).  A child that does not finish
/// within the watchdog is examined (stacks saved under work/hangs), killed and the case is
/// run once more in a fresh child: only a hang that repeats ends the check as inconclusive.
/// (A deadlock of the code under test is a scheduler verdict, not a hang; an endless loop
/// repeats.)
pub fn run_forked(f: impl Fn() -> CaseOut) -> CaseOut {
    for attempt in 0..2 {
        match run_forked_once(&f, attempt == 1) {
            Some(out) => return out,
            None => eprintln!("NOTE: a case child hung once; re-running the case in a fresh child"),
        }
    }
    unreachable!()
}

fn run_forked_once(f: &dyn Fn() -> CaseOut, last_attempt: bool) -> Option<CaseOut> {
    unsafe {
        let mut fds = [0i32; 2];
        if libc::pipe(fds.as_mut_ptr()) != 0 {
            eprintln!("INCONCLUSIVE: pipe failed");
            std::process::exit(2);
        }
        let pid = libc::fork();
        if pid < 0 {
            eprintln!("INCONCLUSIVE: fork failed");
            std::process::exit(2);
        }
        if pid == 0 {
            libc::close(fds[0]);
            let out = f();
            let text = serde_json::to_string(&caseout_to_json(&out)).unwrap_or_default();
            let bytes = text.as_bytes();
            let mut off = 0;
            while off < bytes.len() {
                let n = libc::write(fds[1], bytes[off..].as_ptr() as *const libc::c_void, bytes.len() - off);
                if n <= 0 {
                    break;
                }
                off += n as usize;
            }
            libc::close(fds[1]);
            libc::_exit(0);
        }
        libc::close(fds[1]);
        let mut buf: Vec<u8> = Vec::new();
        let mut chunk = [0u8; 4096];
        let mut waited_ms = 0i32;
        let watchdog_ms = 60_000;
        loop {
            let mut pfd = libc::pollfd { fd: fds[0], events: libc::POLLIN, revents: 0 };
            let r = libc::poll(&mut pfd, 1, 1000);
            if r == 0 {
                waited_ms += 1000;
                if waited_ms >= watchdog_ms {
                    // keep the evidence: stacks of the hung child
                    let dir = format!("{}/work/hangs", VERIF_ROOT);
                    let _ = std::fs::create_dir_all(&dir);
                    let _ = std::process::Command::new("timeout")
                        .args(["30", "gdb", "-p", &pid.to_string(), "-batch", "-ex", "thread apply all bt 25"])
                        .stdout(std::fs::File::create(format!("{}/hang-{}.txt", dir, pid)).map(std::process::Stdio::from).unwrap_or(std::process::Stdio::null()))
                        .stderr(std::process::Stdio::null())
                        .status();
                    libc::kill(pid, libc::SIGKILL);
                    let mut st = 0;
                    libc::waitpid(pid, &mut st, 0);
                    libc::close(fds[0]);
                    if last_attempt {
                        eprintln!("INCONCLUSIVE: case did not finish within {} s twice (hang); killed", watchdog_ms / 1000);
                        std::process::exit(2);
                    }
                    return None;
                }
                continue;
            }
            let n = libc::read(fds[0], chunk.as_mut_ptr() as *mut libc::c_void, chunk.len());
            if n <= 0 {
                break;
            }
            buf.extend_from_slice(&chunk[..n as usize]);
        }
        libc::close(fds[0]);
        let mut st = 0;
        libc::waitpid(pid, &mut st, 0);
        match serde_json::from_slice::<Value>(&buf) {
            Ok(v) => Some(caseout_from_json(&v)),
            Err(_) => {
                eprintln!("INCONCLUSIVE: case child died without a result (wait status {:#x})", st);
                std::process::exit(2);
            }
        }
    }
}

/// One generator + oracle unit of a property.
pub struct Part {
    pub name: &'static str,
    /// total cases over all workers
    pub cases_quick: u64,
    pub cases_thorough: u64,
    /// bytes per case
    pub len_quick: usize,
    pub len_thorough: usize,
    pub run: fn(&[u8], Tier) -> CaseOut,
    pub describe: fn(&[u8], Tier) -> Value,
    /// each case must run in a fresh process (process-global first-use registration)
    pub fresh_process: bool,
    /// each case runs in a forked child of the (pristine) worker
    pub forked: bool,
    /// classes that must be observed (generator health); missing => exit 2
    pub required_classes: &'static [&'static str],
}

pub struct Property {
    pub id: &'static str,
    pub rule: &'static str,
    pub assumptions: &'static [&'static str],
    pub parts: Vec<Part>,
    /// custom stage run once in the parent (e.g. compile corpora); returns extra evidence
    pub custom: Option<fn(Tier, u64) -> CustomOut>,
}

#[derive(Default)]
pub struct CustomOut {
    pub evaluations: u64,
    pub nontrivial_keys: Vec<u64>,
    pub classes: BTreeMap<String, u64>,
    pub samples: Vec<Value>,
    pub violations: Vec<(Violation, Value)>,
    pub extra: BTreeMap<String, Value>,
    pub inconclusive: Option<String>,
}

// ---------------------------------------------------------------------------------------
// Known findings
// ---------------------------------------------------------------------------------------

#[derive(Clone, Debug)]
pub struct Known {
    pub property: String,
    pub sig: String,
    pub what: String,
}

pub fn load_known(property: &str) -> Vec<Known> {
    let p = Path::new(VERIF_ROOT).join("KNOWN_FINDINGS.txt");
    let mut v = Vec::new();
    if let Ok(s) = std::fs::read_to_string(p) {
        for line in s.lines() {
            let line = line.trim();
            if let Some(rest) = line.strip_prefix("open:") {
                let mut prop = String::new();
                let mut sig = String::new();
                let mut what = Vec::new();
                for tok in rest.split_whitespace() {
                    if let Some(p) = tok.strip_prefix("property=") {
                        prop = p.to_string();
                    } else if let Some(s) = tok.strip_prefix("sig=") {
                        sig = s.to_string();
                    } else {
                        what.push(tok);
                    }
                }
                if prop == property && !sig.is_empty() {
                    v.push(Known { property: prop, sig, what: what.join(" ") });
                }
            }
        }
    }
    v
}

// ---------------------------------------------------------------------------------------
// Worker: run the parts of one property with proptest over byte vectors
// ---------------------------------------------------------------------------------------

#[derive(Default)]
pub struct WorkerReport {
    pub evaluations: u64,
    pub nontrivial: HashSet<u64>,
    pub classes: BTreeMap<String, u64>,
    pub samples: Vec<Value>,
    pub violations: Vec<Value>,
    pub known_hits: BTreeMap<String, u64>,
    pub aborted_foreign: u64,
    pub per_part: BTreeMap<String, u64>,
}

impl WorkerReport {
    pub fn to_json(&self) -> Value {
        json!({
            "evaluations": self.evaluations,
            "nontrivial": self.nontrivial.iter().collect::<Vec<_>>(),
            "classes": self.classes,
            "samples": self.samples,
            "violations": self.violations,
            "known_hits": self.known_hits,
            "aborted_foreign": self.aborted_foreign,
            "per_part": self.per_part,
        })
    }
}

fn hex(bytes: &[u8]) -> String {
    let mut s = String::with_capacity(bytes.len() * 2);
    for b in bytes {
        s.push_str(&format!("{:02x}", b));
    }
    s
}

pub fn unhex(s: &str) -> Vec<u8> {
    let s = s.trim();
    (0..s.len() / 2).map(|i| u8::from_str_radix(&s[2 * i..2 * i + 2], 16).unwrap_or(0)).collect()
}

pub fn share(total: u64, workers: usize, index: usize) -> u64 {
    let base = total / workers as u64;
    let extra = if (index as u64) < total % workers as u64 { 1 } else { 0 };
    base + extra
}

/// Run one case of a fresh-process part in a child and parse its CaseOut.
fn run_case_in_child(prop: &str, part: &str, tier: Tier, bytes: &[u8]) -> Result<CaseOut, String> {
    let exe = std::env::current_exe().map_err(|e| e.to_string())?;
    let out = std::process::Command::new(exe)
        .args(["case", prop, part, "--tier", tier.name(), "--hex", &hex(bytes)])
        .output()
        .map_err(|e| e.to_string())?;
    let text = String::from_utf8_lossy(&out.stdout);
    let line = text.lines().rev().find(|l| l.starts_with("CASEOUT ")).ok_or_else(|| {
        format!("child produced no CASEOUT (status {:?}): {}", out.status.code(), String::from_utf8_lossy(&out.stderr).chars().take(400).collect::<String>())
    })?;
    let v: Value = serde_json::from_str(&line[8..]).map_err(|e| e.to_string())?;
    Ok(caseout_from_json(&v))
}

pub fn caseout_to_json(o: &CaseOut) -> Value {
    json!({
        "nontrivial": o.nontrivial,
        "classes": o.classes,
        "key": o.key,
        "aborted_foreign": o.aborted_foreign,
        "aux": o.aux,
        "violation": o.violation.as_ref().map(|v| json!({
            "signature": v.signature, "clause": v.clause, "step": v.step, "expected": v.expected, "observed": v.observed
        })),
    })
}

fn leak(s: String) -> &'static str {
    Box::leak(s.into_boxed_str())
}

pub fn caseout_from_json(v: &Value) -> CaseOut {
    CaseOut {
        nontrivial: v["nontrivial"].as_bool().unwrap_or(false),
        classes: v["classes"].as_array().map(|a| a.iter().filter_map(|x| x.as_str()).map(|s| leak(s.to_string())).collect()).unwrap_or_default(),
        key: v["key"].as_u64().unwrap_or(0),
        aborted_foreign: v["aborted_foreign"].as_bool().unwrap_or(false),
        aux: v["aux"].as_str().unwrap_or("").to_string(),
        violation: if v["violation"].is_null() {
            None
        } else {
            let x = &v["violation"];
            Some(Violation {
                signature: x["signature"].as_str().unwrap_or("").to_string(),
                clause: x["clause"].as_str().unwrap_or("").to_string(),
                step: x["step"].as_u64().unwrap_or(0) as usize,
                expected: x["expected"].as_str().unwrap_or("").to_string(),
                observed: x["observed"].as_str().unwrap_or("").to_string(),
            })
        },
    }
}

pub fn run_worker(prop: &Property, tier: Tier, seed: u64, index: usize, workers: usize) -> WorkerReport {
    let known = load_known(prop.id);
    let mut rep = WorkerReport::default();
    for (pi, part) in prop.parts.iter().enumerate() {
        let total = match tier {
            Tier::Quick => part.cases_quick,
            Tier::Thorough => part.cases_thorough,
        };
        let mult: f64 = std::env::var("VERIF_CASES_MULT").ok().and_then(|s| s.parse().ok()).unwrap_or(1.0);
        let n = share((total as f64 * mult) as u64, workers, index);
        if n == 0 {
            continue;
        }
        let len = match tier {
            Tier::Quick => part.len_quick,
            Tier::Thorough => part.len_thorough,
        };
        let pseed = mix(seed, (pi as u64) << 32 | index as u64);
        let mut config = Config::default();
        config.cases = n as u32;
        config.rng_seed = RngSeed::Fixed(pseed);
        config.failure_persistence = None;
        // free-running parts: a failure is not a function of the case alone, so shrinking would
        // walk to a smaller case that failed once by luck and reproduces rarely; keep the original
        config.max_shrink_iters = if matches!(part.name, "stress" | "firstuse") { 0 } else { 3000 };
        config.max_shrink_time = 0;
        config.verbose = 0;
        config.source_file = None;
        let mut runner = TestRunner::new(config);
        let strat = proptest::collection::vec(proptest::num::u8::ANY, len..=len);

        struct St {
            failed_sig: Option<String>,
            last_violation: Option<Violation>,
            part_evals: u64,
        }
        let st = std::cell::RefCell::new(St { failed_sig: None, last_violation: None, part_evals: 0 });
        let repc = std::cell::RefCell::new(std::mem::take(&mut rep));
        let res = {
            let known = &known;
            let st = &st;
            let repc = &repc;
            runner.run(&strat, move |bytes| {
                let out = if part.fresh_process {
                    match run_case_in_child(prop.id, part.name, tier, &bytes) {
                        Ok(o) => o,
                        Err(e) => {
                            eprintln!("INCONCLUSIVE child failure: {e}");
                            std::process::exit(2);
                        }
                    }
                } else if part.forked {
                    run_forked(|| (part.run)(&bytes, tier))
                } else {
                    (part.run)(&bytes, tier)
                };
                let mut st = st.borrow_mut();
                let mut rep = repc.borrow_mut();
                let shrinking = st.failed_sig.is_some();
                if !shrinking {
                    rep.evaluations += 1;
                    st.part_evals += 1;
                    if out.aborted_foreign {
                        rep.aborted_foreign += 1;
                    }
                    for c in &out.classes {
                        *rep.classes.entry(format!("{}:{}", part.name, c)).or_insert(0) += 1;
                    }
                    if out.nontrivial && out.violation.is_none() {
                        let fresh = rep.nontrivial.insert(out.key ^ str_hash(part.name));
                        if fresh && rep.samples.iter().filter(|s| s["part"] == part.name).count() < 2 {
                            rep.samples.push(json!({"part": part.name, "case": (part.describe)(&bytes, tier)}));
                        }
                    }
                }
                if let Some(v) = out.violation {
                    if let Some(k) = known.iter().find(|k| k.sig == v.signature) {
                        if !shrinking {
                            *rep.known_hits.entry(k.sig.clone()).or_insert(0) += 1;
                        }
                        return Ok(());
                    }
                    let same = match &st.failed_sig {
                        None => true,
                        Some(sig) => *sig == v.signature,
                    };
                    if same {
                        st.failed_sig = Some(v.signature.clone());
                        st.last_violation = Some(v.clone());
                        Err(TestCaseError::fail(v.signature))
                    } else {
                        Ok(())
                    }
                } else {
                    Ok(())
                }
            })
        };
        rep = repc.into_inner();
        let St { last_violation, part_evals, .. } = st.into_inner();
        rep.per_part.insert(part.name.to_string(), part_evals);
        match res {
            Ok(()) => {}
            Err(TestError::Fail(_, bytes)) => {
                // re-run the minimal case to get its violation record
                let out = if part.fresh_process {
                    run_case_in_child(prop.id, part.name, tier, &bytes).unwrap_or_default()
                } else {
                    (part.run)(&bytes, tier)
                };
                let v = out.violation.or(last_violation.clone());
                if let Some(v) = v {
                    rep.violations.push(json!({
                        "property": prop.id,
                        "part": part.name,
                        "tier": tier.name(),
                        "seed": seed,
                        "worker": index,
                        "signature": v.signature,
                        "clause": v.clause,
                        "step": v.step,
                        "expected": v.expected,
                        "observed": v.observed,
                        "bytes": hex(&bytes),
                        "case": (part.describe)(&bytes, tier),
                    }));
                }
                // one violation per worker is enough; stop exploring further parts
                break;
            }
            Err(TestError::Abort(r)) => {
                eprintln!("INCONCLUSIVE proptest abort: {}", r);
                std::process::exit(2);
            }
        }
    }
    rep
}

// ---------------------------------------------------------------------------------------
// Parent: fan out workers, merge, write evidence and replay files
// ---------------------------------------------------------------------------------------

pub fn work_dir(id: &str) -> PathBuf {
    let p = Path::new(VERIF_ROOT).join("work").join(id);
    let _ = std::fs::create_dir_all(&p);
    p
}

pub fn write_replay(v: &Value) -> PathBuf {
    let dir = std::env::var("VERIF_REPLAY_DIR").map(PathBuf::from).unwrap_or_else(|_| Path::new(VERIF_ROOT).join("replays"));
    let _ = std::fs::create_dir_all(&dir);
    let sig = v["signature"].as_str().unwrap_or("");
    let id = v["property"].as_str().unwrap_or("C00");
    let name = format!("{}-{:016x}.json", id, str_hash(&format!("{}|{}", sig, v["bytes"].as_str().unwrap_or(""))));
    let p = dir.join(name);
    let _ = std::fs::write(&p, serde_json::to_string_pretty(v).unwrap());
    p
}

pub struct CheckResult {
    pub exit: i32,
}

pub fn run_check(prop: &Property, tier: Tier, seed: u64) -> CheckResult {
    let t0 = vrt::clock::real_secs();
    let workers = tier.workers();
    let dir = work_dir(prop.id);
    let exe = std::env::current_exe().expect("current_exe");
    let mut children = Vec::new();
    if !prop.parts.is_empty() {
        for i in 0..workers {
            let out = dir.join(format!("w{}.json", i));
            let _ = std::fs::remove_file(&out);
            let child = std::process::Command::new(&exe)
                .args(["worker", prop.id, "--tier", tier.name(), "--seed", &seed.to_string(), "--index", &i.to_string(), "--workers", &workers.to_string(), "--out"])
                .arg(&out)
                .stdout(std::process::Stdio::null())
                .stderr(std::process::Stdio::piped())
                .spawn()
                .expect("spawn worker");
            children.push((i, out, child));
        }
    }
    // regression tier: the minimal failing inputs of repaired defects, as plain code
    let mut regress_violations: Vec<Value> = Vec::new();
    let mut regress_run = 0u64;
    for (name, f) in crate::regress::cases_for(prop.id) {
        regress_run += 1;
        let out = run_forked(move || CaseOut { violation: f(), ..CaseOut::default() });
        if let Some(v) = out.violation {
            regress_violations.push(json!({
                "property": prop.id, "part": "regress", "tier": tier.name(), "seed": seed, "regress_case": name,
                "signature": v.signature, "clause": v.clause, "step": 0, "expected": v.expected, "observed": v.observed, "bytes": "", "case": name,
            }));
        }
    }
    // custom stage runs in the parent while the workers run
    let custom = prop.custom.map(|f| f(tier, seed));

    let mut merged = WorkerReport::default();
    let mut inconclusive: Vec<String> = Vec::new();
    for (i, out, child) in children {
        let o = child.wait_with_output().expect("wait worker");
        let code = o.status.code();
        if code != Some(0) {
            inconclusive.push(format!(
                "worker {} exit {:?}: {}",
                i,
                code,
                String::from_utf8_lossy(&o.stderr).chars().rev().take(600).collect::<String>().chars().rev().collect::<String>()
            ));
            continue;
        }
        match std::fs::read_to_string(&out).ok().and_then(|s| serde_json::from_str::<Value>(&s).ok()) {
            None => inconclusive.push(format!("worker {} wrote no report", i)),
            Some(v) => {
                merged.evaluations += v["evaluations"].as_u64().unwrap_or(0);
                merged.aborted_foreign += v["aborted_foreign"].as_u64().unwrap_or(0);
                if let Some(a) = v["nontrivial"].as_array() {
                    for x in a {
                        if let Some(h) = x.as_u64() {
                            merged.nontrivial.insert(h);
                        }
                    }
                }
                if let Some(m) = v["classes"].as_object() {
                    for (k, c) in m {
                        *merged.classes.entry(k.clone()).or_insert(0) += c.as_u64().unwrap_or(0);
                    }
                }
                if let Some(m) = v["per_part"].as_object() {
                    for (k, c) in m {
                        *merged.per_part.entry(k.clone()).or_insert(0) += c.as_u64().unwrap_or(0);
                    }
                }
                if let Some(m) = v["known_hits"].as_object() {
                    for (k, c) in m {
                        *merged.known_hits.entry(k.clone()).or_insert(0) += c.as_u64().unwrap_or(0);
                    }
                }
                if let Some(a) = v["samples"].as_array() {
                    for s in a {
                        if merged.samples.len() < 6 {
                            merged.samples.push(s.clone());
                        }
                    }
                }
                if let Some(a) = v["violations"].as_array() {
                    for s in a {
                        merged.violations.push(s.clone());
                    }
                }
            }
        }
        let _ = std::fs::remove_file(&out);
    }

    let mut extra: BTreeMap<String, Value> = BTreeMap::new();
    let mut custom_violations: Vec<Value> = Vec::new();
    if let Some(c) = custom {
        merged.evaluations += c.evaluations;
        for k in c.nontrivial_keys {
            merged.nontrivial.insert(k);
        }
        for (k, n) in c.classes {
            *merged.classes.entry(k).or_insert(0) += n;
        }
        for s in c.samples {
            if merged.samples.len() < 9 {
                merged.samples.push(s);
            }
        }
        for (v, case) in c.violations {
            if case["part"] == "prog" {
                // a program-tier finding is byte-driven: keep its own replay record
                custom_violations.push(case.clone());
                continue;
            }
            custom_violations.push(json!({
                "property": prop.id, "part": "custom", "tier": tier.name(), "seed": seed,
                "signature": v.signature, "clause": v.clause, "step": v.step,
                "expected": v.expected, "observed": v.observed, "bytes": "", "case": case,
            }));
        }
        extra = c.extra;
        if let Some(r) = c.inconclusive {
            inconclusive.push(r);
        }
    }

    // confirm violations by replaying the minimal case in a fresh process
    let known = load_known(prop.id);
    let mut confirmed: Vec<(String, PathBuf)> = Vec::new();
    let mut seen_sigs: HashSet<String> = HashSet::new();
    for v in merged.violations.iter() {
        let sig = v["signature"].as_str().unwrap_or("").to_string();
        if !seen_sigs.insert(sig.clone()) {
            continue;
        }
        let path = write_replay(v);
        let o = std::process::Command::new(&exe).args(["replay"]).arg(&path).output().expect("replay");
        let text = String::from_utf8_lossy(&o.stdout).to_string();
        if o.status.code() == Some(1) && text.contains("VIOLATION") {
            confirmed.push((sig, path));
        } else {
            inconclusive.push(format!(
                "violation {} did not reproduce in a fresh process (replay {} exit {:?}); state leak between cases suspected",
                sig,
                path.display(),
                o.status.code()
            ));
        }
    }
    for v in regress_violations.iter() {
        let sig = v["signature"].as_str().unwrap_or("").to_string();
        if seen_sigs.insert(sig.clone()) {
            let path = write_replay(v);
            confirmed.push((sig, path));
        }
    }
    for v in custom_violations.iter() {
        let sig = v["signature"].as_str().unwrap_or("").to_string();
        if seen_sigs.insert(sig.clone()) {
            let path = write_replay(v);
            confirmed.push((sig, path));
        }
    }

    // generator health
    let mut missing: Vec<String> = Vec::new();
    if confirmed.is_empty() && inconclusive.is_empty() {
        for part in &prop.parts {
            let total = match tier {
                Tier::Quick => part.cases_quick,
                Tier::Thorough => part.cases_thorough,
            };
            if total == 0 {
                continue;
            }
            for c in part.required_classes {
                let k = format!("{}:{}", part.name, c);
                if merged.classes.get(&k).copied().unwrap_or(0) == 0 {
                    missing.push(k);
                }
            }
        }
    }

    let wall = vrt::clock::real_secs() - t0;
    let mut coverage = serde_json::Map::new();
    coverage.insert("evaluations".into(), json!(merged.evaluations));
    coverage.insert("distinct_nontrivial".into(), json!(merged.nontrivial.len()));
    coverage.insert("rule".into(), json!(prop.rule));
    coverage.insert("samples".into(), json!(merged.samples));
    coverage.insert("classes".into(), json!(merged.classes));
    coverage.insert("per_part_evaluations".into(), json!(merged.per_part));
    coverage.insert("aborted_foreign".into(), json!(merged.aborted_foreign));
    coverage.insert("known_findings_hit".into(), json!(merged.known_hits));
    coverage.insert("workers".into(), json!(workers));
    coverage.insert("regression_cases_run".into(), json!(regress_run));
    coverage.insert("inconclusive".into(), json!(inconclusive));
    coverage.insert("missing_required_classes".into(), json!(missing));
    coverage.insert(
        "violation_replays".into(),
        json!(confirmed.iter().map(|(s, p)| json!({"signature": s, "replay": p.display().to_string()})).collect::<Vec<_>>()),
    );
    for (k, v) in extra {
        coverage.insert(k, v);
    }
    let evidence = json!({
        "property_id": prop.id,
        "tier": tier.name(),
        "seed": seed,
        "level": "exploration",
        "coverage": Value::Object(coverage),
        "assumptions": prop.assumptions,
        "wall_s": (wall * 100.0).round() / 100.0,
        "violations": confirmed.len(),
    });
    let edir = std::env::var("VERIF_EVIDENCE_DIR").map(PathBuf::from).unwrap_or_else(|_| Path::new(VERIF_ROOT).join("evidence"));
    let _ = std::fs::create_dir_all(&edir);
    let epath = edir.join(format!("{}.json", prop.id));
    let mut f = std::fs::File::create(&epath).expect("evidence file");
    let _ = f.write_all(serde_json::to_string_pretty(&evidence).unwrap().as_bytes());
    let _ = f.write_all(b"\n");

    for (sig, n) in &merged.known_hits {
        let what = known.iter().find(|k| &k.sig == sig).map(|k| k.what.clone()).unwrap_or_default();
        println!("KNOWN-FINDING: property={} sig={} hits={} {}", prop.id, sig, n, what);
    }
    println!(
        "{} tier={} seed={} evaluations={} distinct_nontrivial={} violations={} wall_s={:.1}",
        prop.id,
        tier.name(),
        seed,
        merged.evaluations,
        merged.nontrivial.len(),
        confirmed.len(),
        wall
    );
    if !confirmed.is_empty() {
        for (sig, p) in &confirmed {
            println!("VIOLATION property={} replay={} signature={}", prop.id, p.display(), sig);
        }
        return CheckResult { exit: 1 };
    }
    if !inconclusive.is_empty() {
        for r in &inconclusive {
            eprintln!("INCONCLUSIVE: {}", r);
        }
        return CheckResult { exit: 2 };
    }
    if !missing.is_empty() {
        eprintln!("INCONCLUSIVE: generator health: required classes never produced: {:?}", missing);
        return CheckResult { exit: 2 };
    }
    CheckResult { exit: 0 }
}

/// Unused-import guard for proptest traits used only through the runner.
#[allow(dead_code)]
fn _traits<S: Strategy>(s: &S, r: &mut TestRunner) {
    if let Ok(t) = s.new_tree(r) {
        let _ = t.current();
    }
}
