//! Reference model of a bounded cache (DESIGN.md section 4).  Pure Rust, no code shared
//! with cachelito.  The model is *relational*: for every step it computes which outcomes
//! the properties allow, reports the clauses the observed outcome breaks, then adopts the
//! observed outcome so that checking can continue.

use std::collections::{BTreeMap, BTreeSet};
use vrt::{Flavour, Policy};

pub const SEC: i64 = 1_000_000_000;

/// ttl in nanoseconds, saturating: ttl values up to u64::MAX are legal attribute values.
pub fn ttl_ns(t: u64) -> i64 {
    if t > (i64::MAX / SEC) as u64 {
        i64::MAX
    } else {
        t as i64 * SEC
    }
}

#[derive(Clone, Debug, PartialEq)]
pub struct Cfg {
    pub flavour: Flavour,
    pub policy: Policy,
    pub limit: Option<usize>,
    pub ttl: Option<u64>,
    pub max_memory: Option<usize>,
    pub frequency_weight: Option<f64>,
}

#[derive(Clone, Debug, PartialEq)]
pub struct MEntry {
    /// identity of the stored value (content hash)
    pub tag: u64,
    /// footprint by the harness's own measure
    pub fp: usize,
    pub birth_ns: i64,
    pub hits: u64,
    pub store_seq: u64,
    pub use_seq: u64,
}

#[derive(Clone, Debug)]
pub struct Model {
    pub cfg: Cfg,
    pub entries: BTreeMap<String, MEntry>,
    pub seq: u64,
}

#[derive(Clone, Copy, Debug, PartialEq, Eq)]
pub enum Exp {
    MustServe,
    MustExpire,
    Either,
}

/// A broken clause.  `clause` is one of a fixed vocabulary; each check evaluates its own.
#[derive(Clone, Debug)]
pub struct Finding {
    pub clause: &'static str,
    pub expected: String,
    pub observed: String,
}

/// What the real cache held after an operation.
#[derive(Clone, Debug, Default)]
pub struct Snapshot {
    /// key -> (value tag, footprint)
    pub entries: BTreeMap<String, (u64, usize)>,
    pub queue: Vec<String>,
}

#[derive(Clone, Debug, Default)]
pub struct StepInfo {
    pub findings: Vec<Finding>,
    /// the store was a new key into a full cache (limit overflow)
    pub overflow: bool,
    /// keys that left the store during this step
    pub removed: Vec<String>,
    /// a memory-driven eviction happened / an oversize value was rejected / exact fit
    pub mem_evicted: bool,
    pub oversize_rejected: bool,
    pub exact_fit: bool,
    /// at an eviction, the FIFO victim and the LRU victim differed
    pub fifo_lru_differ: bool,
    /// at an eviction, the minimiser set was a proper subset of the candidates and not all
    /// candidates had zero hits
    pub score_decides: bool,
    /// lookup hit / miss / expired
    pub hit: bool,
    pub expired: bool,
    /// lookup of a resident entry at an age within one second of the ttl
    pub near_boundary: bool,
    /// a hit served after an earlier eviction / expiry / re-store in this case
    pub restored_key: bool,
}

fn approx_le(a: f64, b: f64) -> bool {
    a <= b + 1e-9 * a.abs().max(b.abs()).max(1e-300)
}

impl Cfg {
    pub fn exp_class(&self, e: &MEntry, now_ns: i64) -> Exp {
        match self.ttl {
            None => Exp::MustServe,
            Some(t) => {
                let age = now_ns - e.birth_ns;
                let t_ns = ttl_ns(t);
                if age >= t_ns {
                    Exp::MustExpire
                } else if self.flavour != Flavour::Async {
                    Exp::MustServe
                } else if age < t_ns - SEC {
                    Exp::MustServe
                } else {
                    Exp::Either
                }
            }
        }
    }

    /// Score of an entry among `present` (rank 1 = least recently used).
    fn score(&self, e: &MEntry, rank: usize, now_ns: i64) -> f64 {
        match self.policy {
            Policy::Lfu => e.hits as f64,
            Policy::Arc => e.hits as f64 * rank as f64,
            Policy::Tlru => {
                let w = self.frequency_weight.unwrap_or(1.0);
                let f = if e.hits == 0 { 0.0 } else { (e.hits as f64).powf(w) };
                let life = match self.ttl {
                    None => 1.0,
                    Some(t) => {
                        if t == 0 {
                            0.0
                        } else {
                            let age = (now_ns - e.birth_ns) as f64 / SEC as f64;
                            (1.0 - age / t as f64).clamp(0.0, 1.0)
                        }
                    }
                };
                f * rank as f64 * life
            }
            _ => 0.0,
        }
    }

    /// The set of entries the policy allows as the next victim among `present`.
    pub fn allowed_victims(&self, present: &BTreeMap<String, MEntry>, now_ns: i64) -> BTreeSet<String> {
        let mut out = BTreeSet::new();
        if present.is_empty() {
            return out;
        }
        match self.policy {
            Policy::Random => {
                out.extend(present.keys().cloned());
            }
            Policy::Fifo => {
                let m = present.values().map(|e| e.store_seq).min().unwrap();
                out.extend(present.iter().filter(|(_, e)| e.store_seq == m).map(|(k, _)| k.clone()));
            }
            Policy::Lru => {
                let m = present.values().map(|e| e.use_seq).min().unwrap();
                out.extend(present.iter().filter(|(_, e)| e.use_seq == m).map(|(k, _)| k.clone()));
            }
            Policy::Lfu | Policy::Arc | Policy::Tlru => {
                let mut by_use: Vec<(&String, &MEntry)> = present.iter().collect();
                by_use.sort_by_key(|(_, e)| e.use_seq);
                let scored: Vec<(&String, f64)> = by_use.iter().enumerate().map(|(i, (k, e))| (*k, self.score(e, i + 1, now_ns))).collect();
                let m = scored.iter().map(|(_, s)| *s).fold(f64::INFINITY, f64::min);
                for (k, s) in scored {
                    if approx_le(s, m) {
                        out.insert(k.clone());
                    }
                }
            }
        }
        out
    }
}

/// Can the removal of exactly `removed` be explained by single evictions that continue
/// exactly while the total exceeds the memory bound and then at most one limit eviction?
/// `policy`: victims must be policy-conformant; otherwise any entry may be the victim.
/// `newcomer_competes` selects convention A (store, then evict) or B (evict, then store).
fn explain(
    cfg: &Cfg,
    present: &BTreeMap<String, MEntry>,
    new_key: &str,
    new_entry: &MEntry,
    to_remove: &BTreeSet<String>,
    now_ns: i64,
    policy: bool,
    newcomer_competes: bool,
    in_limit_phase_done: bool,
) -> bool {
    let extra = if newcomer_competes { 0 } else { new_entry.fp };
    let total: usize = present.values().map(|e| e.fp).sum::<usize>() + extra;
    let over_mem = cfg.max_memory.map(|m| total > m).unwrap_or(false);
    let candidates = |present: &BTreeMap<String, MEntry>| -> Vec<String> {
        let allowed: BTreeSet<String> = if policy { cfg.allowed_victims(present, now_ns) } else { present.keys().cloned().collect() };
        allowed.into_iter().filter(|k| to_remove.contains(k)).collect()
    };
    if over_mem && !in_limit_phase_done {
        if present.is_empty() {
            return false;
        }
        for v in candidates(present) {
            let mut p2 = present.clone();
            p2.remove(&v);
            let mut r2 = to_remove.clone();
            r2.remove(&v);
            if explain(cfg, &p2, new_key, new_entry, &r2, now_ns, policy, newcomer_competes, false) {
                return true;
            }
        }
        return false;
    }
    if over_mem && in_limit_phase_done {
        // a limit eviction cannot push the total over the bound
        return false;
    }
    // memory fits: at most one limit eviction
    if !in_limit_phase_done {
        let over_limit = match cfg.limit {
            None => false,
            Some(n) => {
                if newcomer_competes {
                    present.len() > n
                } else {
                    present.len() >= n
                }
            }
        };
        if over_limit {
            for v in candidates(present) {
                let mut p2 = present.clone();
                p2.remove(&v);
                let mut r2 = to_remove.clone();
                r2.remove(&v);
                if r2.is_empty() {
                    let _ = p2;
                    return true;
                }
            }
            return false;
        }
    }
    let _ = new_key;
    to_remove.is_empty()
}

impl Model {
    pub fn new(cfg: Cfg) -> Model {
        Model { cfg, entries: BTreeMap::new(), seq: 0 }
    }

    fn next_seq(&mut self) -> u64 {
        self.seq += 1;
        self.seq
    }

    pub fn total_fp(&self) -> usize {
        self.entries.values().map(|e| e.fp).sum()
    }

    /// Check a lookup.  `got`: the tag of the returned value, if any.
    pub fn lookup(&mut self, key: &str, got: Option<u64>, after: &Snapshot, now_ns: i64, info: &mut StepInfo) {
        let before_keys: BTreeSet<String> = self.entries.keys().cloned().collect();
        let after_keys: BTreeSet<String> = after.entries.keys().cloned().collect();
        match self.entries.get(key).cloned() {
            None => {
                if let Some(t) = got {
                    info.findings.push(Finding { clause: "hit-absent", expected: format!("no value: {key:?} is not cached"), observed: format!("value tag {t:x}") });
                }
                if after_keys != before_keys {
                    info.findings.push(Finding { clause: "get-changed-store", expected: format!("{before_keys:?}"), observed: format!("{after_keys:?}") });
                }
            }
            Some(e) => {
                let cls = self.cfg.exp_class(&e, now_ns);
                if let Some(t) = self.cfg.ttl {
                    let age = now_ns - e.birth_ns;
                    let t_ns = ttl_ns(t);
                    if (age as i128 - t_ns as i128).abs() <= SEC as i128 {
                        info.near_boundary = true;
                    }
                }
                match got {
                    Some(t) => {
                        info.hit = true;
                        if cls == Exp::MustExpire {
                            info.findings.push(Finding {
                                clause: "served-expired",
                                expected: format!("no value: age {} ns >= ttl {:?} s", now_ns - e.birth_ns, self.cfg.ttl),
                                observed: format!("value tag {t:x}"),
                            });
                        }
                        if t != e.tag {
                            info.findings.push(Finding { clause: "value", expected: format!("value tag {:x} (last store for {key:?})", e.tag), observed: format!("value tag {t:x}") });
                        }
                        if after_keys != before_keys {
                            info.findings.push(Finding { clause: "get-changed-store", expected: format!("{before_keys:?}"), observed: format!("{after_keys:?}") });
                        }
                        let s = self.next_seq();
                        let m = self.entries.get_mut(key).unwrap();
                        m.hits += 1;
                        m.use_seq = s;
                    }
                    None => {
                        if cls == Exp::MustServe {
                            info.findings.push(Finding {
                                clause: "miss-present",
                                expected: format!("value tag {:x}: {key:?} is cached, age {} ns, ttl {:?}", e.tag, now_ns - e.birth_ns, self.cfg.ttl),
                                observed: "no value".to_string(),
                            });
                        } else {
                            info.expired = true;
                            // expired (or allowed to be): must be purged from the store
                            if after_keys.contains(key) {
                                info.findings.push(Finding {
                                    clause: "expired-not-purged",
                                    expected: format!("{key:?} gone from the store after the expired lookup"),
                                    observed: format!("store still holds {after_keys:?}"),
                                });
                            }
                        }
                        // every other key is untouched by a lookup
                        let mut exp = before_keys.clone();
                        exp.remove(key);
                        let mut obs = after_keys.clone();
                        obs.remove(key);
                        if obs != exp {
                            info.findings.push(Finding { clause: "get-changed-store", expected: format!("others untouched: {exp:?}"), observed: format!("{obs:?}") });
                        }
                    }
                }
            }
        }
        self.adopt(after, now_ns, None, info);
    }

    /// Check a store of `key` (value tag / footprint) through the plain or memory-aware path.
    /// `memory_aware`: the store went through `insert_with_memory`.
    pub fn store(&mut self, key: &str, tag: u64, fp: usize, memory_aware: bool, after: &Snapshot, now_ns: i64, info: &mut StepInfo) {
        let mut cfg = self.cfg.clone();
        if !memory_aware {
            cfg.max_memory = None;
        }
        let before = self.entries.clone();
        let before_keys: BTreeSet<String> = before.keys().cloned().collect();
        let after_keys: BTreeSet<String> = after.entries.keys().cloned().collect();
        let seq = self.next_seq();
        let new_entry = MEntry { tag, fp, birth_ns: now_ns, hits: 0, store_seq: seq, use_seq: seq };
        let existed = before.contains_key(key);

        // keys may only leave, never appear (other than `key`)
        let appeared: Vec<&String> = after_keys.iter().filter(|k| !before_keys.contains(*k) && k.as_str() != key).collect();
        if !appeared.is_empty() {
            info.findings.push(Finding { clause: "store-invented-key", expected: format!("only {key:?} may appear"), observed: format!("{appeared:?} appeared") });
        }

        // bounds
        if let Some(n) = cfg.limit {
            if after_keys.len() > n {
                info.findings.push(Finding { clause: "bound", expected: format!("at most {n} entries"), observed: format!("{} entries: {after_keys:?}", after_keys.len()) });
            }
        }
        let after_total: usize = after.entries.values().map(|(_, f)| *f).sum();
        if let Some(m) = cfg.max_memory {
            if after_total > m {
                info.findings.push(Finding { clause: "mem-bound", expected: format!("total <= {m} bytes"), observed: format!("total {after_total} bytes over {after_keys:?}") });
            }
        }

        let oversize = cfg.max_memory.map(|m| fp > m).unwrap_or(false);
        if oversize {
            info.oversize_rejected = true;
            // not cached, displaces nothing else (the key's own previous value may stay or go)
            let mut exp = before_keys.clone();
            exp.remove(key);
            let mut obs = after_keys.clone();
            obs.remove(key);
            if obs != exp {
                info.findings.push(Finding { clause: "oversize-displaced", expected: format!("others untouched: {exp:?}"), observed: format!("{obs:?}") });
            }
            if let Some((t, _)) = after.entries.get(key) {
                if *t == tag {
                    info.findings.push(Finding { clause: "oversize-cached", expected: format!("value of {fp} bytes > max_memory {:?} is not cached", cfg.max_memory), observed: "it is cached".to_string() });
                } else if !existed || before[key].tag != *t {
                    info.findings.push(Finding { clause: "oversize-cached", expected: "key absent or previous value".to_string(), observed: format!("tag {t:x}") });
                } else {
                    // the previous value of the key survived a later store for the same key: after
                    // store(k, v) a lookup of k may return v or nothing, never an older value
                    // (C01 "last store wins"; C05 itself does not forbid it)
                    info.findings.push(Finding {
                        clause: "stale-after-oversize-store",
                        expected: format!("{key:?} absent after a store whose value ({fp} bytes) exceeds max_memory {:?}: the older value must not be served again", cfg.max_memory),
                        observed: format!("{key:?} still holds the previous value (tag {t:x})"),
                    });
                }
            }
            self.adopt(after, now_ns, None, info);
            return;
        }

        // the store was ignored (old value kept): that is a C01 matter ("last store wins"),
        // nothing was stored, so there is nothing to explain
        if existed {
            if let Some((t, _)) = after.entries.get(key) {
                if *t != tag && *t == before[key].tag && after_keys == before_keys {
                    info.findings.push(Finding { clause: "stale-store", expected: format!("{key:?} holds the new value tag {tag:x}"), observed: format!("the store was ignored, it still holds tag {t:x}") });
                    self.adopt(after, now_ns, None, info);
                    return;
                }
            }
        }

        // --- explanation search ---
        let mut residents = before.clone();
        residents.remove(key);
        let mut with_new = residents.clone();
        with_new.insert(key.to_string(), new_entry.clone());
        let removed_a: BTreeSet<String> = with_new.keys().filter(|k| !after_keys.contains(*k)).cloned().collect();
        let removed_b: BTreeSet<String> = residents.keys().filter(|k| !after_keys.contains(*k)).cloned().collect();
        let newcomer_present = after_keys.contains(key);
        info.removed = removed_a.iter().cloned().collect();

        let total_with_new: usize = with_new.values().map(|e| e.fp).sum();
        if let Some(m) = cfg.max_memory {
            if total_with_new > m {
                info.mem_evicted = true;
            } else if total_with_new == m {
                info.exact_fit = true;
            }
        }
        if !existed {
            if let Some(n) = cfg.limit {
                if residents.len() >= n {
                    info.overflow = true;
                }
            }
        }

        let any_a = explain(&cfg, &with_new, key, &new_entry, &removed_a, now_ns, false, true, false);
        let any_b = newcomer_present && explain(&cfg, &residents, key, &new_entry, &removed_b, now_ns, false, false, false);
        if !(any_a || any_b) {
            let clause = if info.mem_evicted { "mem-count" } else { "count" };
            info.findings.push(Finding {
                clause,
                expected: format!(
                    "evictions only while over the bound (limit {:?}, max_memory {:?}; total with new value {} bytes, {} residents)",
                    cfg.limit,
                    cfg.max_memory,
                    total_with_new,
                    residents.len()
                ),
                observed: format!("removed {removed_a:?}"),
            });
        } else if cfg.policy != Policy::Random {
            let pol_a = any_a && explain(&cfg, &with_new, key, &new_entry, &removed_a, now_ns, true, true, false);
            let pol_b = any_b && explain(&cfg, &residents, key, &new_entry, &removed_b, now_ns, true, false, false);
            if !(pol_a || pol_b) {
                let allowed_a = cfg.allowed_victims(&with_new, now_ns);
                let allowed_b = cfg.allowed_victims(&residents, now_ns);
                info.findings.push(Finding {
                    clause: "order",
                    expected: format!("first victim among {allowed_b:?} (residents compete) or {allowed_a:?} (newcomer competes)"),
                    observed: format!("removed {removed_a:?}; residents {}", describe_entries(&residents, now_ns)),
                });
            }
        }
        // non-triviality classes for C07 / C08 (first eviction among residents)
        if !removed_a.is_empty() && !residents.is_empty() {
            let fifo = Cfg { policy: Policy::Fifo, ..cfg.clone() }.allowed_victims(&residents, now_ns);
            let lru = Cfg { policy: Policy::Lru, ..cfg.clone() }.allowed_victims(&residents, now_ns);
            if fifo != lru {
                info.fifo_lru_differ = true;
            }
            if matches!(cfg.policy, Policy::Lfu | Policy::Arc | Policy::Tlru) {
                let mins = cfg.allowed_victims(&residents, now_ns);
                let any_hits = residents.values().any(|e| e.hits > 0);
                if mins.len() < residents.len() && any_hits {
                    info.score_decides = true;
                }
            }
        }

        // last store wins
        if let Some((t, _)) = after.entries.get(key) {
            if *t != tag {
                info.findings.push(Finding { clause: "stale-store", expected: format!("{key:?} holds the new value tag {tag:x}"), observed: format!("it holds tag {t:x}") });
            }
        }
        self.adopt(after, now_ns, Some((key, new_entry)), info);
    }

    pub fn clear(&mut self, after: &Snapshot, info: &mut StepInfo) {
        if !after.entries.is_empty() {
            info.findings.push(Finding { clause: "clear-left", expected: "empty store".into(), observed: format!("{:?}", after.entries.keys().collect::<Vec<_>>()) });
        }
        self.entries.clear();
    }

    /// Delete keys "as if never stored" (invalidation).
    pub fn forget(&mut self, keys: &[String]) {
        for k in keys {
            self.entries.remove(k);
        }
    }

    /// Adopt the observed store contents (the model never diverges from the real cache).
    fn adopt(&mut self, after: &Snapshot, now_ns: i64, stored: Option<(&str, MEntry)>, _info: &mut StepInfo) {
        let mut next: BTreeMap<String, MEntry> = BTreeMap::new();
        for (k, (tag, fp)) in &after.entries {
            let e = match (&stored, self.entries.get(k)) {
                (Some((sk, ne)), _) if *sk == k.as_str() && ne.tag == *tag => ne.clone(),
                (_, Some(old)) if old.tag == *tag => {
                    let mut o = old.clone();
                    o.fp = *fp;
                    o
                }
                _ => {
                    let s = self.next_seq();
                    MEntry { tag: *tag, fp: *fp, birth_ns: now_ns, hits: 0, store_seq: s, use_seq: s }
                }
            };
            next.insert(k.clone(), e);
        }
        self.entries = next;
    }
}

pub fn describe_entries(es: &BTreeMap<String, MEntry>, now_ns: i64) -> String {
    let mut v: Vec<(&String, &MEntry)> = es.iter().collect();
    v.sort_by_key(|(_, e)| e.use_seq);
    let parts: Vec<String> = v
        .iter()
        .map(|(k, e)| format!("{}(hits {}, stored#{}, used#{}, age {:.3}s, {}B)", k, e.hits, e.store_seq, e.use_seq, (now_ns - e.birth_ns) as f64 / SEC as f64, e.fp))
        .collect();
    format!("[{}] (least recently used first)", parts.join(", "))
}

#[cfg(test)]
mod tests {
    use super::*;

    fn cfg(policy: Policy, limit: Option<usize>) -> Cfg {
        Cfg { flavour: Flavour::Global, policy, limit, ttl: None, max_memory: None, frequency_weight: None }
    }
    fn e(tag: u64, hits: u64, st: u64, us: u64) -> MEntry {
        MEntry { tag, fp: 10, birth_ns: 0, hits, store_seq: st, use_seq: us }
    }

    #[test]
    fn fifo_lru_victims() {
        let mut p = BTreeMap::new();
        p.insert("a".to_string(), e(1, 0, 1, 5));
        p.insert("b".to_string(), e(2, 0, 2, 3));
        assert_eq!(cfg(Policy::Fifo, Some(2)).allowed_victims(&p, 0), ["a".to_string()].into_iter().collect());
        assert_eq!(cfg(Policy::Lru, Some(2)).allowed_victims(&p, 0), ["b".to_string()].into_iter().collect());
    }

    #[test]
    fn arc_equal_hits_lru_goes_first() {
        // README / property C08: among equally popular entries the least recently used goes first
        let mut p = BTreeMap::new();
        p.insert("a".to_string(), e(1, 1, 1, 3));
        p.insert("b".to_string(), e(2, 1, 2, 4));
        assert_eq!(cfg(Policy::Arc, Some(2)).allowed_victims(&p, 0), ["a".to_string()].into_iter().collect());
        // a: 3 hits rank 1 = 3 ; b: 1 hit rank 2 = 2 -> b
        p.get_mut("a").unwrap().hits = 3;
        assert_eq!(cfg(Policy::Arc, Some(2)).allowed_victims(&p, 0), ["b".to_string()].into_iter().collect());
    }

    #[test]
    fn tlru_lifetime_and_weight() {
        let mut c = cfg(Policy::Tlru, Some(2));
        c.ttl = Some(4);
        let mut p = BTreeMap::new();
        // a: 4 hits, rank 1, age 3s of 4 -> 4*1*0.25 = 1 ; b: 1 hit, rank 2, age 0 -> 2
        p.insert("a".to_string(), MEntry { tag: 1, fp: 1, birth_ns: 0, hits: 4, store_seq: 1, use_seq: 1 });
        p.insert("b".to_string(), MEntry { tag: 2, fp: 1, birth_ns: 3 * SEC, hits: 1, store_seq: 2, use_seq: 2 });
        assert_eq!(c.allowed_victims(&p, 3 * SEC), ["a".to_string()].into_iter().collect());
        // weight 3: a = 64*0.25 = 16 ; b = 2 -> b
        c.frequency_weight = Some(3.0);
        assert_eq!(c.allowed_victims(&p, 3 * SEC), ["b".to_string()].into_iter().collect());
    }

    #[test]
    fn store_overflow_exactly_one() {
        let mut m = Model::new(cfg(Policy::Fifo, Some(2)));
        let mut info = StepInfo::default();
        let mut snap = Snapshot::default();
        snap.entries.insert("a".into(), (1, 10));
        m.store("a", 1, 10, false, &snap, 0, &mut info);
        snap.entries.insert("b".into(), (2, 10));
        m.store("b", 2, 10, false, &snap, 0, &mut info);
        assert!(info.findings.is_empty());
        // overflow evicting b (wrong for FIFO) -> order finding
        let mut s2 = Snapshot::default();
        s2.entries.insert("a".into(), (1, 10));
        s2.entries.insert("c".into(), (3, 10));
        let mut m2 = m.clone();
        let mut i2 = StepInfo::default();
        m2.store("c", 3, 10, false, &s2, 0, &mut i2);
        assert!(i2.overflow);
        assert_eq!(i2.findings.len(), 1);
        assert_eq!(i2.findings[0].clause, "order");
        // overflow evicting nothing -> bound + count
        let mut s3 = snap.clone();
        s3.entries.insert("c".into(), (3, 10));
        let mut m3 = m.clone();
        let mut i3 = StepInfo::default();
        m3.store("c", 3, 10, false, &s3, 0, &mut i3);
        let cl: Vec<&str> = i3.findings.iter().map(|f| f.clause).collect();
        assert!(cl.contains(&"bound") && cl.contains(&"count"), "{cl:?}");
        // overflow evicting both residents -> count
        let mut s4 = Snapshot::default();
        s4.entries.insert("c".into(), (3, 10));
        let mut m4 = m.clone();
        let mut i4 = StepInfo::default();
        m4.store("c", 3, 10, false, &s4, 0, &mut i4);
        assert_eq!(i4.findings.iter().map(|f| f.clause).collect::<Vec<_>>(), vec!["count"]);
    }

    #[test]
    fn memory_until_fits() {
        let mut c = cfg(Policy::Fifo, None);
        c.max_memory = Some(30);
        let mut m = Model::new(c);
        let mut info = StepInfo::default();
        let mut snap = Snapshot::default();
        for (i, k) in ["a", "b", "c"].iter().enumerate() {
            snap.entries.insert(k.to_string(), (i as u64 + 1, 10));
            m.store(k, i as u64 + 1, 10, true, &snap, 0, &mut info);
        }
        assert!(info.findings.is_empty(), "{:?}", info.findings);
        assert!(info.exact_fit);
        // d (15 bytes): must evict a and b (oldest), not more
        let mut s2 = Snapshot::default();
        s2.entries.insert("c".into(), (3, 10));
        s2.entries.insert("d".into(), (4, 15));
        let mut m2 = m.clone();
        let mut i2 = StepInfo::default();
        m2.store("d", 4, 15, true, &s2, 0, &mut i2);
        assert!(i2.findings.is_empty(), "{:?}", i2.findings);
        assert!(i2.mem_evicted);
        // evicting all three is a needless eviction
        let mut s3 = Snapshot::default();
        s3.entries.insert("d".into(), (4, 15));
        let mut m3 = m.clone();
        let mut i3 = StepInfo::default();
        m3.store("d", 4, 15, true, &s3, 0, &mut i3);
        assert_eq!(i3.findings.iter().map(|f| f.clause).collect::<Vec<_>>(), vec!["mem-count"]);
        // oversize: rejected, nothing displaced
        let mut m4 = m.clone();
        let mut i4 = StepInfo::default();
        m4.store("e", 5, 31, true, &snap, 0, &mut i4);
        assert!(i4.findings.is_empty() && i4.oversize_rejected);
    }

    #[test]
    fn ttl_classes() {
        let mut c = cfg(Policy::Fifo, None);
        c.ttl = Some(2);
        let en = e(1, 0, 1, 1);
        assert_eq!(c.exp_class(&en, 2 * SEC - 1), Exp::MustServe);
        assert_eq!(c.exp_class(&en, 2 * SEC), Exp::MustExpire);
        c.flavour = Flavour::Async;
        assert_eq!(c.exp_class(&en, SEC - 1), Exp::MustServe);
        assert_eq!(c.exp_class(&en, SEC), Exp::Either);
        assert_eq!(c.exp_class(&en, 2 * SEC), Exp::MustExpire);
    }
}
