//! C19 program tier and invalid tier (engine E5).
//!
//! Program tier: a seeded generator (vgen) writes N functions decorated with the real
//! macros over the product attribute presence / values x signature shapes, together with a
//! static table of the *intended* configuration of each.  The program is compiled (it must
//! compile) into the `vgen19` host binary, which links the harness and drives every
//! generated function with generated histories against the reference model configured from
//! the table.  Invalid tier: generated invalid attribute lists, each paired with a corrected
//! twin, compiled as examples of a scratch package: the invalid one must fail, the twin
//! must compile.

use crate::attrs::{gen_item, AttrItem};
use crate::infra::{mix, CustomOut, Dec, Tier, Violation, VERIF_ROOT};
use serde_json::{json, Value};
use std::path::{Path, PathBuf};
use std::process::Command;

fn gen_dir(sub: &str) -> PathBuf {
    let p = Path::new(VERIF_ROOT).join("work").join("gen19").join(sub);
    let _ = std::fs::create_dir_all(&p);
    p
}

pub struct Built {
    pub dir: PathBuf,
    pub bin: PathBuf,
}

/// Generate corpus `cseed` and compile it into its own copy of the vgen19 binary.
pub fn build_corpus(cseed: u64, n_funcs: usize, registry_mode: bool, tag: &str) -> Result<Built, String> {
    let dir = gen_dir(tag);
    let src = dir.join("gen.rs");
    let specs = vgen::random_corpus(cseed, n_funcs, registry_mode);
    std::fs::write(&src, vgen::emit_crate_source(&specs)).map_err(|e| e.to_string())?;
    let out = Command::new("cargo")
        .args(["build", "-q", "-p", "vgen19"])
        .current_dir("/verif/engine")
        .env("CARGO_NET_OFFLINE", "true")
        .env("VGEN19_SRC", &src)
        .output()
        .map_err(|e| e.to_string())?;
    if !out.status.success() {
        let err = String::from_utf8_lossy(&out.stderr);
        let excerpt: String = err.lines().filter(|l| l.starts_with("error") || l.contains("-->") || l.contains("#[cachelito")).take(12).collect::<Vec<_>>().join("\n");
        return Err(excerpt);
    }
    let bin = dir.join("vgen19");
    std::fs::copy("/verif/engine/target/debug/vgen19", &bin).map_err(|e| e.to_string())?;
    Ok(Built { dir, bin })
}

fn merge_worker(out: &mut CustomOut, v: &Value, prefix: &str) -> Vec<Value> {
    out.evaluations += v["evaluations"].as_u64().unwrap_or(0);
    if let Some(a) = v["nontrivial"].as_array() {
        for x in a {
            if let Some(h) = x.as_u64() {
                out.nontrivial_keys.push(h ^ crate::infra::str_hash(prefix));
            }
        }
    }
    if let Some(m) = v["classes"].as_object() {
        for (k, c) in m {
            *out.classes.entry(k.clone()).or_insert(0) += c.as_u64().unwrap_or(0);
        }
    }
    if let Some(a) = v["samples"].as_array() {
        for s in a {
            if out.samples.len() < 4 {
                out.samples.push(s.clone());
            }
        }
    }
    v["violations"].as_array().cloned().unwrap_or_default()
}

fn run_workers(b: &Built, prop: &str, tier: Tier, seed: u64, workers: usize) -> Result<Vec<Value>, String> {
    let mut kids = Vec::new();
    for i in 0..workers {
        let outp = b.dir.join(format!("w{}.json", i));
        let _ = std::fs::remove_file(&outp);
        let c = Command::new(&b.bin)
            .args(["worker", prop, "--tier", tier.name(), "--seed", &seed.to_string(), "--index", &i.to_string(), "--workers", &workers.to_string(), "--out"])
            .arg(&outp)
            .stdout(std::process::Stdio::null())
            .stderr(std::process::Stdio::piped())
            .spawn()
            .map_err(|e| e.to_string())?;
        kids.push((outp, c));
    }
    let mut reps = Vec::new();
    for (outp, c) in kids {
        let o = c.wait_with_output().map_err(|e| e.to_string())?;
        if o.status.code() != Some(0) {
            return Err(format!("generated-program worker exit {:?}: {}", o.status.code(), String::from_utf8_lossy(&o.stderr).chars().take(400).collect::<String>()));
        }
        let v: Value = serde_json::from_str(&std::fs::read_to_string(&outp).map_err(|e| e.to_string())?).map_err(|e| e.to_string())?;
        let _ = std::fs::remove_file(&outp);
        reps.push(v);
    }
    Ok(reps)
}

/// Drive one compiled corpus with property `prop` ("C19P" program histories, "C12P" registry scenarios).
pub fn drive_corpus(out: &mut CustomOut, prop_owner: &str, prop: &str, tier: Tier, cseed: u64, n_funcs: usize, registry_mode: bool, tag: &str) {
    let built = match build_corpus(cseed, n_funcs, registry_mode, tag) {
        Ok(b) => b,
        Err(e) => {
            out.violations.push((
                Violation {
                    signature: format!("{}:program:valid-program-does-not-compile", prop_owner),
                    clause: "valid-program-does-not-compile".into(),
                    step: 0,
                    expected: format!("the generated program (corpus seed {}, {} functions with valid attribute lists) compiles", cseed, n_funcs),
                    observed: e,
                },
                json!({"corpus_seed": cseed, "n_funcs": n_funcs, "registry_mode": registry_mode, "source": gen_dir(tag).join("gen.rs").display().to_string()}),
            ));
            return;
        }
    };
    *out.classes.entry("program:functions_compiled".into()).or_insert(0) += n_funcs as u64;
    match run_workers(&built, prop, tier, cseed, 8) {
        Err(e) => out.inconclusive = Some(e),
        Ok(reps) => {
            for r in reps {
                for mut v in merge_worker(out, &r, tag) {
                    v["property"] = json!(prop_owner);
                    v["part"] = json!("prog");
                    v["corpus_seed"] = json!(cseed);
                    v["n_funcs"] = json!(n_funcs);
                    v["registry_mode"] = json!(registry_mode);
                    v["inner_property"] = json!(prop);
                    // confirm in a fresh process of the generated binary
                    let tmp = built.dir.join("confirm.json");
                    let _ = std::fs::write(&tmp, serde_json::to_string(&v).unwrap());
                    let o = Command::new(&built.bin).arg("replay").arg(&tmp).output();
                    let confirmed = matches!(&o, Ok(o) if o.status.code() == Some(1));
                    if confirmed {
                        let viol = Violation {
                            signature: v["signature"].as_str().unwrap_or("").to_string(),
                            clause: v["clause"].as_str().unwrap_or("").to_string(),
                            step: v["step"].as_u64().unwrap_or(0) as usize,
                            expected: v["expected"].as_str().unwrap_or("").to_string(),
                            observed: v["observed"].as_str().unwrap_or("").to_string(),
                        };
                        if !out.violations.iter().any(|(x, _)| x.signature == viol.signature) {
                            out.violations.push((viol, v.clone()));
                        }
                    } else {
                        out.inconclusive = Some(format!("program-tier violation {} did not reproduce", v["signature"]));
                    }
                }
            }
        }
    }
    let _ = std::fs::remove_file(&built.bin);
}

/// Replay of a program-tier finding from `cv`: rebuild the corpus and hand over to its binary.
pub fn replay_prog(v: &Value, path: &str) -> i32 {
    let cseed = v["corpus_seed"].as_u64().unwrap_or(0);
    let n = v["n_funcs"].as_u64().unwrap_or(0) as usize;
    let reg = v["registry_mode"].as_bool().unwrap_or(false);
    match build_corpus(cseed, n, reg, "replay") {
        Err(e) => {
            println!("the generated program does not compile on this tree:\n{}", e);
            println!("VIOLATION property={} replay={} signature={}", v["property"].as_str().unwrap_or("C19"), path, v["signature"].as_str().unwrap_or(""));
            1
        }
        Ok(b) => {
            let o = Command::new(&b.bin).arg("replay").arg(path).status();
            let _ = std::fs::remove_file(&b.bin);
            o.ok().and_then(|s| s.code()).unwrap_or(2)
        }
    }
}

// ---------------------------------------------------------------------------------------
// Invalid tier
// ---------------------------------------------------------------------------------------

#[derive(Clone, Debug)]
struct InvalidPair {
    is_async: bool,
    invalid_list: String,
    twin_list: String,
    why: String,
}

fn item_text(i: &AttrItem) -> String {
    format!("{} = {}", i.name, i.value)
}

fn gen_pair(d: &mut Dec) -> InvalidPair {
    let is_async = d.chance(1, 2);
    let mut items: Vec<AttrItem> = Vec::new();
    let n = d.choose(4);
    for _ in 0..n {
        let it = gen_item(d, is_async, true);
        if it.expect.is_some() && !items.iter().any(|x| x.name == it.name) {
            items.push(it);
        }
    }
    let mode = d.weighted(&[5, 3, 2]);
    let base: Vec<String> = items.iter().map(item_text).collect();
    match mode {
        0 => {
            // one invalid value; twin: a valid value for the same attribute
            let mut bad = gen_item(d, is_async, false);
            for _ in 0..8 {
                if bad.expect.is_none() && !(is_async && bad.name == "scope") {
                    break;
                }
                bad = gen_item(d, is_async, false);
            }
            if bad.expect.is_some() || (is_async && bad.name == "scope") {
                bad = AttrItem { name: "limit".into(), value: "-1".into(), expect: None, why_invalid: "limit must be a non-negative integer literal".into() };
            }
            let mut good = gen_item(d, is_async, true);
            for _ in 0..64 {
                if good.name == bad.name && good.expect.is_some() {
                    break;
                }
                good = gen_item(d, is_async, true);
            }
            let keep: Vec<String> = items.iter().filter(|x| x.name != bad.name).map(item_text).collect();
            let pos = d.choose(keep.len() + 1);
            let mut inv = keep.clone();
            inv.insert(pos, item_text(&bad));
            let mut twin = keep.clone();
            if good.name == bad.name && good.expect.is_some() {
                twin.insert(pos, item_text(&good));
            }
            InvalidPair { is_async, invalid_list: inv.join(", "), twin_list: twin.join(", "), why: format!("{} = {}: {}", bad.name, bad.value, bad.why_invalid) }
        }
        1 => {
            let typos = [("limt", "limit", "3"), ("polcy", "policy", "\"lru\""), ("tag", "tags", "[\"a\"]"), ("event", "events", "[\"a\"]"), ("dependency", "dependencies", "[\"a\"]"), ("max_mem", "max_memory", "\"1MB\""), ("time_to_live", "ttl", "60"), ("Limit", "limit", "3"), ("TTL", "ttl", "5"), ("capacity", "limit", "7"), ("weight", "frequency_weight", "1.5"), ("cacheif", "cache_if", "preds::ok"), ("invalidateon", "invalidate_on", "is_stale"), ("nme", "name", "\"c\"")];
            let (bad, good, val) = typos[d.choose(typos.len())];
            let keep: Vec<String> = items.iter().filter(|x| x.name != good).map(item_text).collect();
            let pos = d.choose(keep.len() + 1);
            let mut inv = keep.clone();
            inv.insert(pos, format!("{} = {}", bad, val));
            let mut twin = keep.clone();
            twin.insert(pos, format!("{} = {}", good, val));
            InvalidPair { is_async, invalid_list: inv.join(", "), twin_list: twin.join(", "), why: format!("unknown attribute `{}`", bad) }
        }
        _ => {
            let (bad, good) = [("limit(3)", "limit = 3"), ("limit", "limit = 3"), ("limit: 3", "limit = 3"), ("\"limit\" = 3", "limit = 3"), ("ttl 5", "ttl = 5"), ("policy == \"lru\"", "policy = \"lru\"")][d.choose(6)];
            let keep: Vec<String> = items.iter().filter(|x| x.name != "limit" && x.name != "ttl" && x.name != "policy").map(item_text).collect();
            let mut inv = keep.clone();
            inv.push(bad.to_string());
            let mut twin = keep;
            twin.push(good.to_string());
            let _ = base;
            InvalidPair { is_async, invalid_list: inv.join(", "), twin_list: twin.join(", "), why: format!("`{}` is not name = value syntax", bad) }
        }
    }
}

fn example_source(is_async: bool, list: &str) -> String {
    let mut s = String::from(
        "#![allow(dead_code, unused_imports)]\nmod checks { pub fn is_stale(_k: &String, _v: &String) -> bool { false } }\nmod preds { pub fn ok(_k: &String, _v: &String) -> bool { true } }\nfn is_stale(_k: &String, _v: &String) -> bool { false }\nfn f(_k: &String, _v: &String) -> bool { true }\n",
    );
    if is_async {
        s.push_str(&format!("#[cachelito_async::cache_async({})]\npub async fn target(a: u32) -> String {{ a.to_string() }}\n", list));
    } else {
        s.push_str(&format!("#[cachelito::cache({})]\npub fn target(a: u32) -> String {{ a.to_string() }}\n", list));
    }
    s.push_str("fn main() {}\n");
    s
}

pub fn invalid_stage(out: &mut CustomOut, tier: Tier, seed: u64) {
    let n_pairs = match tier {
        Tier::Quick => 80,
        Tier::Thorough => 600,
    };
    let dir = gen_dir("invalid");
    let ex = dir.join("examples");
    let _ = std::fs::remove_dir_all(&ex);
    let _ = std::fs::create_dir_all(&ex);
    let _ = std::fs::create_dir_all(dir.join("src"));
    let _ = std::fs::write(dir.join("src/lib.rs"), "");
    let manifest = r#"[package]
name = "vinvalid19"
version = "0.1.0"
edition = "2021"

[workspace]

[features]
default = ["stats"]
stats = []

[dependencies]
cachelito = { path = "/repo" }
cachelito-async = { path = "/repo/cachelito-async" }
cachelito-core = { path = "/repo/cachelito-core" }
once_cell = "1.21"
parking_lot = "0.12"
dashmap = "6.1"
"#;
    let _ = std::fs::write(dir.join("Cargo.toml"), manifest);
    let _ = std::fs::copy("/repo/Cargo.lock", dir.join("Cargo.lock"));
    let mut pairs = Vec::new();
    for i in 0..n_pairs {
        let mut bytes = [0u8; 64];
        let mut x = mix(seed, 0x1_0000 + i as u64);
        for b in bytes.iter_mut() {
            x = crate::infra::splitmix64(x);
            *b = (x >> 32) as u8;
        }
        let mut d = Dec::new(&bytes);
        let p = gen_pair(&mut d);
        let _ = std::fs::write(ex.join(format!("inv_{:04}.rs", i)), example_source(p.is_async, &p.invalid_list));
        let _ = std::fs::write(ex.join(format!("twin_{:04}.rs", i)), example_source(p.is_async, &p.twin_list));
        pairs.push(p);
    }
    let o = Command::new("cargo")
        .args(["check", "--examples", "--keep-going", "--message-format=json", "--offline"])
        .current_dir(&dir)
        .env("CARGO_NET_OFFLINE", "true")
        .env("CARGO_TARGET_DIR", gen_dir("target_invalid"))
        .output();
    let o = match o {
        Ok(o) => o,
        Err(e) => {
            out.inconclusive = Some(format!("cargo check of the invalid corpus failed to start: {}", e));
            return;
        }
    };
    let mut compiled: std::collections::BTreeSet<String> = Default::default();
    let mut errors: std::collections::BTreeMap<String, String> = Default::default();
    for line in String::from_utf8_lossy(&o.stdout).lines() {
        let Ok(v) = serde_json::from_str::<Value>(line) else { continue };
        let name = v["target"]["name"].as_str().unwrap_or("").to_string();
        match v["reason"].as_str() {
            Some("compiler-artifact") => {
                if v["target"]["kind"].as_array().map(|k| k.iter().any(|x| x == "example")).unwrap_or(false) {
                    compiled.insert(name);
                }
            }
            Some("compiler-message") => {
                if v["message"]["level"] == "error" {
                    errors.entry(name).or_insert_with(|| v["message"]["message"].as_str().unwrap_or("").chars().take(200).collect());
                }
            }
            _ => {}
        }
    }
    if compiled.is_empty() && errors.is_empty() {
        out.inconclusive = Some(format!("cargo check of the invalid corpus produced no results: {}", String::from_utf8_lossy(&o.stderr).chars().take(400).collect::<String>()));
        return;
    }
    for (i, p) in pairs.iter().enumerate() {
        out.evaluations += 1;
        let inv = format!("inv_{:04}", i);
        let twin = format!("twin_{:04}", i);
        let mac = if p.is_async { "cache_async" } else { "cache" };
        out.nontrivial_keys.push(crate::infra::str_hash(&format!("{}|{}|{}", mac, p.invalid_list, p.twin_list)));
        *out.classes.entry("invalid:pairs".into()).or_insert(0) += 1;
        if i < 2 {
            out.samples.push(json!({"part": "invalid", "macro": mac, "invalid": p.invalid_list, "twin": p.twin_list, "why": p.why}));
        }
        if compiled.contains(&inv) {
            out.violations.push((
                Violation {
                    signature: format!("C19:invalid:{}:invalid-compiles", mac),
                    clause: "invalid-compiles".into(),
                    step: i,
                    expected: format!("#[{}({})] is rejected at compile time: {}", mac, p.invalid_list, p.why),
                    observed: "the example compiles".into(),
                },
                json!({"macro": mac, "attribute_list": p.invalid_list, "twin": p.twin_list, "why": p.why}),
            ));
        } else if !compiled.contains(&twin) {
            out.violations.push((
                Violation {
                    signature: format!("C19:invalid:{}:twin-rejected", mac),
                    clause: "twin-rejected".into(),
                    step: i,
                    expected: format!("the corrected list #[{}({})] compiles", mac, p.twin_list),
                    observed: format!("error: {}", errors.get(&twin).cloned().unwrap_or_default()),
                },
                json!({"macro": mac, "attribute_list": p.twin_list, "invalid_sibling": p.invalid_list}),
            ));
        }
    }
    // keep one violation per signature
    let mut seen = std::collections::BTreeSet::new();
    out.violations.retain(|(v, _)| seen.insert(v.signature.clone()));
}

pub fn c19_custom(tier: Tier, seed: u64) -> CustomOut {
    let mut out = CustomOut::default();
    let (n_corpora, n_funcs) = match tier {
        Tier::Quick => (1usize, 150usize),
        Tier::Thorough => (6, 300),
    };
    for i in 0..n_corpora {
        let cseed = mix(seed, 0xC19_0000 + i as u64);
        drive_corpus(&mut out, "C19", "C19P", tier, cseed, n_funcs, false, &format!("c{}", i));
        if !out.violations.is_empty() {
            break;
        }
    }
    if out.violations.is_empty() {
        invalid_stage(&mut out, tier, seed);
    }
    out.extra.insert("program_tier".into(), json!({"corpora": n_corpora, "functions_per_corpus": n_funcs, "generator": "vgen::random_corpus(seed)"}));
    out
}

/// C12: registry-mode corpora (metadata drawn from a pool of 6 strings), thorough tier only.
pub fn c12_custom(tier: Tier, seed: u64) -> CustomOut {
    let mut out = CustomOut::default();
    let n = match tier {
        Tier::Quick => 0usize,
        Tier::Thorough => 6,
    };
    for i in 0..n {
        let cseed = mix(seed, 0xC12_0000 + i as u64);
        drive_corpus(&mut out, "C12", "C12P", tier, cseed, 40, true, &format!("r{}", i));
        if !out.violations.is_empty() {
            break;
        }
    }
    out.extra.insert("registry_corpora".into(), json!({"corpora": n, "functions_per_corpus": 40}));
    out
}
