//! C20: a suspended or dropped async call never blocks or corrupts the cache.
//! Gated async bodies are polled by hand to a generated poll boundary, a generated program
//! runs while the call is suspended, then the call is resumed or dropped.  The whole case
//! runs on a thread registered with the scheduler so that a lock kept inside the suspended
//! future turns the next acquisition into a deterministic "would block forever" verdict.

use crate::infra::{hash_of, CaseOut, Dec, Tier, Violation};
use crate::keys::{key_of, twin_value};
use crate::l2_checks::key_args;
use crate::macro_l2::{list_keys, ret_fp, ret_tag, static_corpus, stats_of, CallScript, L2Finding, MacroSim};
use crate::model::{Snapshot, StepInfo, SEC};
use serde::Serialize;
use serde_json::{json, Value};
use std::collections::BTreeSet;
use std::task::Poll;
use vrt::Ret;

#[derive(Clone, Debug, Hash, PartialEq, Serialize)]
pub enum GOp {
    Call { k: u8 },
    InvWith { mask: u16 },
    ByTag,
    ByName,
    Advance { ns: i64 },
}

#[derive(Clone, Debug, Hash, PartialEq, Serialize)]
pub struct GateCase {
    pub fn_id: u32,
    pub prefix: Vec<u8>,
    /// clock advance between the prefix and the start of call A (whole seconds around the ttl)
    pub prefix_age_ns: i64,
    pub a_key: u8,
    /// verdict of the `invalidate_on` check for call A (functions that declare one)
    pub a_inv: bool,
    pub suspend_at: u8,
    pub interleaved: Vec<GOp>,
    pub resume: bool,
    pub suffix: Vec<GOp>,
}

fn gate_fns() -> &'static Vec<u32> {
    use std::sync::OnceLock;
    static C: OnceLock<Vec<u32>> = OnceLock::new();
    C.get_or_init(|| static_corpus().funcs.iter().filter(|d| d.family == "gate").map(|d| d.id).collect())
}

fn dec_op(d: &mut Dec, a_key: u8, ttl: Option<u64>) -> GOp {
    match d.weighted(&[10, 2, 1, 1, if ttl.is_some() { 3 } else { 0 }]) {
        0 => GOp::Call { k: if d.chance(1, 3) { a_key } else { d.choose(5) as u8 } },
        1 => GOp::InvWith { mask: d.byte() as u16 },
        2 => GOp::ByTag,
        3 => GOp::ByName,
        _ => {
            let t = ttl.unwrap_or(1) as i64 * SEC;
            GOp::Advance { ns: [SEC, t, t - 1, t + SEC][d.choose(4)] }
        }
    }
}

pub fn decode(bytes: &[u8]) -> GateCase {
    let mut d = Dec::new(bytes);
    let corpus = static_corpus();
    let fns = gate_fns();
    let fd = corpus.by_id(fns[d.choose16(fns.len())]);
    let n_prefix = d.choose(4);
    let prefix: Vec<u8> = (0..n_prefix).map(|_| d.choose(5) as u8).collect();
    let prefix_age_ns = match (fd.ttl, d.choose(4)) {
        (Some(t), 1) | (Some(t), 2) => t as i64 * SEC,
        (Some(t), 3) => (t as i64 - 1) * SEC,
        _ => 0,
    };
    // with an aged prefix, call A mostly targets a key the prefix cached (an expired entry)
    let a_inv = fd.invalidate_on && d.chance(3, 4);
    let a_key = if fd.invalidate_on && !prefix.is_empty() && d.chance(4, 5) {
        // a stale verdict needs a cached entry
        prefix[d.choose(prefix.len())]
    } else if prefix_age_ns > 0 && !prefix.is_empty() && d.chance(2, 3) {
        prefix[d.choose(prefix.len())]
    } else if d.chance(1, 5) {
        d.choose(5) as u8
    } else {
        5 + d.choose(2) as u8
    };
    let suspend_at = d.choose(fd.gates as usize) as u8;
    let n_inter = 1 + d.choose(5);
    let interleaved = (0..n_inter).map(|_| dec_op(&mut d, a_key, fd.ttl)).collect();
    let resume = d.chance(1, 2);
    let n_suffix = d.choose(5);
    let suffix = (0..n_suffix).map(|_| dec_op(&mut d, a_key, fd.ttl)).collect();
    GateCase { fn_id: fd.id, prefix, prefix_age_ns, a_key, a_inv, suspend_at, interleaved, resume, suffix }
}

pub fn describe(bytes: &[u8], _t: Tier) -> Value {
    let c = decode(bytes);
    let d = static_corpus().by_id(c.fn_id);
    let mut v = serde_json::to_value(&c).unwrap_or(Value::Null);
    v["function"] = json!({"fn": d.fn_name, "attrs": d.attr_text, "await_points": d.gates});
    v
}

fn first<'a>(fs: &'a [L2Finding]) -> Option<&'a L2Finding> {
    fs.iter().find(|f| f.clause != "order")
}

pub fn run_case(bytes: &[u8], _t: Tier) -> CaseOut {
    let case = decode(bytes);
    let mut out = CaseOut { key: hash_of(&case), ..CaseOut::default() };
    let corpus = static_corpus();
    let d = corpus.by_id(case.fn_id);
    vrt::clock::freeze(0);
    fastrand::seed(out.key | 1);
    crate::infra::install_panic_hook_once();
    let sig = |clause: &str| format!("C20:{}:{}", d.effective_policy().name(), clause);
    // warm-up (first-use registration) outside the registered region
    vrt::open_all_gates();
    let sim = match MacroSim::new(corpus, &[case.fn_id]) {
        Ok(s) => s,
        Err(_) => {
            out.aborted_foreign = true;
            vrt::clock::unfreeze();
            return out;
        }
    };
    let sim = std::cell::RefCell::new(sim);
    {
        // one throw-away call so that every Lazy / OnceCell is initialised, then clean up
        let _ = crate::macro_l2::do_call(&corpus, d, None, &key_args(63), &CallScript::default(), 0);
        let _ = cachelito_core::invalidate_cache(d.cache_name);
        let _ = cachelito_core::stats_registry::reset(d.cache_name);
    }
    let result: std::cell::RefCell<Option<Violation>> = std::cell::RefCell::new(None);
    let nontrivial = std::cell::Cell::new(false);
    let suspended_cell = std::cell::Cell::new(false);
    let stage = std::cell::Cell::new("prefix");
    let stale_suspended = std::cell::Cell::new(false);

    let apply = |op: &GOp, step: usize, phase: &'static str| -> Option<Violation> {
        let mut sim = sim.borrow_mut();
        let fs: Vec<L2Finding> = match op {
            GOp::Call { k } => {
                let info = sim.call(0, None, &key_args(*k), &CallScript::default());
                if let Some(m) = info.panicked {
                    return Some(Violation { signature: sig("panic"), clause: "panic".into(), step, expected: "the call completes".into(), observed: m });
                }
                info.findings
            }
            GOp::InvWith { mask } => {
                let stored: Vec<String> = sim.fns[0].model.entries.keys().cloned().collect();
                let subset: BTreeSet<String> = stored.iter().enumerate().filter(|(i, _)| mask & (1 << (i % 8)) != 0).map(|(_, k)| k.clone()).collect();
                sim.invalidate_with(0, &subset)
            }
            GOp::ByTag => sim.invalidate_group('t', "gate"),
            GOp::ByName => sim.invalidate_group('n', d.cache_name),
            GOp::Advance { ns } => {
                vrt::clock::advance_ns(*ns);
                Vec::new()
            }
        };
        first(&fs).map(|f| Violation {
            signature: sig(&format!("{}:{}", phase, f.clause)),
            clause: f.clause.to_string(),
            step,
            expected: format!("[{} while the gated call is {}] {}", d.fn_name, phase, f.expected),
            observed: f.observed.clone(),
        })
    };

    let rep = vsched::run_inline(
        || {
            // prefix
            for (i, k) in case.prefix.iter().enumerate() {
                if let Some(v) = apply(&GOp::Call { k: *k }, i, "not-started") {
                    *result.borrow_mut() = Some(v);
                    return;
                }
            }
            if case.prefix_age_ns > 0 {
                vrt::clock::advance_ns(case.prefix_age_ns);
            }
            // start A and poll it to the chosen boundary
            stage.set("start");
            let args_a = key_args(case.a_key);
            let key_a = key_of(d, None, &args_a);
            let ver_a = {
                let mut s = sim.borrow_mut();
                s.version += 1;
                s.version
            };
            for g in 0..4 {
                vrt::set_gate(g, (g as u8) < case.suspend_at);
            }
            vrt::begin_call(true, ver_a, true, case.a_inv);
            let mut fut = (corpus.call_async)(d.id, None, &args_a);
            let now = vrt::clock::now_ns();
            let first_poll = vrt::poll_once(fut.as_mut());
            vrt::open_all_gates();
            let listing = list_keys(d.cache_name).unwrap_or_default();
            {
                let mut s = sim.borrow_mut();
                let st = &mut s.fns[0];
                let snap = {
                    let mut sn = Snapshot::default();
                    for k in &listing {
                        let (t, f) = st.model.entries.get(k).map(|e| (e.tag, e.fp)).unwrap_or((0, 0));
                        sn.entries.insert(k.clone(), (t, f));
                    }
                    sn
                };
                let mut si = StepInfo::default();
                match &first_poll {
                    Poll::Ready(ret) if d.invalidate_on && case.a_inv && st.model.entries.contains_key(&key_a) => {
                        *result.borrow_mut() = Some(Violation {
                            signature: sig("stale-served"),
                            clause: "stale-served".into(),
                            step: 0,
                            expected: format!("the check rejected the cached entry for {:?}: the body runs (and suspends at its first closed gate)", key_a),
                            observed: format!("returned {:?} at once", ret),
                        });
                        return;
                    }
                    Poll::Ready(ret) => {
                        st.model.lookup(&key_a, Some(ret_tag(ret)), &snap, now, &mut si);
                        st.hits += 1;
                        st.calls += 1;
                    }
                    Poll::Pending if d.invalidate_on && case.a_inv && st.model.entries.contains_key(&key_a) => {
                        // the check rejected a cached entry: that lookup found the entry (a hit
                        // in the statistics), the body runs, and until it has produced its
                        // result the rejected entry is all the cache has for the key
                        let tag = st.model.entries.get(&key_a).map(|e| e.tag);
                        st.model.lookup(&key_a, tag, &snap, now, &mut si);
                        st.hits += 1;
                        st.calls += 1;
                        stale_suspended.set(true);
                    }
                    Poll::Pending => {
                        st.model.lookup(&key_a, None, &snap, now, &mut si);
                        st.misses += 1;
                        st.calls += 1;
                        let keys: BTreeSet<String> = st.model.entries.keys().cloned().collect();
                        st.values.retain(|k, _| keys.contains(k));
                    }
                }
                // while suspended no entry exists for A's key unless another call stored it
                let model_keys: BTreeSet<String> = st.model.entries.keys().cloned().collect();
                if let Some(f) = si.findings.iter().find(|f| f.clause != "miss-present") {
                    *result.borrow_mut() = Some(Violation { signature: sig(&format!("suspend:{}", f.clause)), clause: f.clause.to_string(), step: 0, expected: f.expected.clone(), observed: f.observed.clone() });
                    return;
                }
                if first_poll.is_pending() && listing != model_keys {
                    *result.borrow_mut() = Some(Violation {
                        signature: sig("suspended-entry"),
                        clause: "suspended-entry".into(),
                        step: 0,
                        expected: format!("while the call for {:?} is suspended at await point {} the cache holds {:?}", key_a, case.suspend_at, model_keys),
                        observed: format!("{:?}", listing),
                    });
                    return;
                }
            }
            let suspended = first_poll.is_pending();
            suspended_cell.set(suspended);
            // interleaved program
            stage.set("interleaved");
            for (i, op) in case.interleaved.iter().enumerate() {
                if suspended && !matches!(op, GOp::Advance { .. }) {
                    nontrivial.set(true);
                }
                if let Some(v) = apply(op, i, if suspended { "suspended" } else { "completed" }) {
                    *result.borrow_mut() = Some(v);
                    return;
                }
            }
            // resume or drop
            stage.set("resume-or-drop");
            if suspended {
                if case.resume {
                    vrt::begin_call(true, ver_a, true, case.a_inv);
                    let now = vrt::clock::now_ns();
                    let mut ret = None;
                    for _ in 0..16 {
                        if let Poll::Ready(r) = vrt::poll_once(fut.as_mut()) {
                            ret = Some(r);
                            break;
                        }
                    }
                    let Some(ret) = ret else {
                        *result.borrow_mut() = Some(Violation { signature: sig("resume-pending"), clause: "resume-pending".into(), step: 0, expected: "the resumed call completes once its gates are open".into(), observed: "still pending".into() });
                        return;
                    };
                    let exp = Ret::Str(twin_value(d, None, &args_a, ver_a));
                    if ret != exp {
                        *result.borrow_mut() = Some(Violation { signature: sig("resume-value"), clause: "resume-value".into(), step: 0, expected: format!("{:?}", exp), observed: format!("{:?}", ret) });
                        return;
                    }
                    // the store happens at resume time
                    let listing = list_keys(d.cache_name).unwrap_or_default();
                    let mut s = sim.borrow_mut();
                    let st = &mut s.fns[0];
                    let (tag, fp) = (ret_tag(&ret), ret_fp(&ret));
                    let mut sn = Snapshot::default();
                    for k in &listing {
                        let (t, f) = if *k == key_a { (tag, fp) } else { st.model.entries.get(k).map(|e| (e.tag, e.fp)).unwrap_or((0, 0)) };
                        sn.entries.insert(k.clone(), (t, f));
                    }
                    let mut si = StepInfo::default();
                    st.model.store(&key_a, tag, fp, d.max_memory.is_some(), &sn, now, &mut si);
                    st.executions += 1;
                    if st.model.entries.get(&key_a).map(|e| e.tag == tag).unwrap_or(false) {
                        st.values.insert(key_a.clone(), ret.clone());
                    }
                    let keys: BTreeSet<String> = st.model.entries.keys().cloned().collect();
                    st.values.retain(|k, _| keys.contains(k));
                    if let Some(f) = si.findings.iter().find(|f| f.clause != "order") {
                        *result.borrow_mut() = Some(Violation { signature: sig(&format!("resume:{}", f.clause)), clause: f.clause.to_string(), step: 0, expected: format!("[store of the resumed call] {}", f.expected), observed: f.observed.clone() });
                        return;
                    }
                } else {
                    drop(fut);
                    let listing = list_keys(d.cache_name).unwrap_or_default();
                    let s = sim.borrow();
                    let model_keys: BTreeSet<String> = s.fns[0].model.entries.keys().cloned().collect();
                    if listing != model_keys {
                        *result.borrow_mut() = Some(Violation {
                            signature: sig("dropped-entry"),
                            clause: "dropped-entry".into(),
                            step: 0,
                            expected: format!("after dropping the suspended call for {:?} the cache holds {:?}", key_a, model_keys),
                            observed: format!("{:?}", listing),
                        });
                        return;
                    }
                }
                // statistics: the suspended call counted exactly one miss
                let s = sim.borrow();
                if let Some((h, m)) = stats_of(d.cache_name) {
                    if (h, m) != (s.fns[0].hits, s.fns[0].misses) {
                        *result.borrow_mut() = Some(Violation { signature: sig("stats"), clause: "stats".into(), step: 0, expected: format!("hits {} misses {}", s.fns[0].hits, s.fns[0].misses), observed: format!("hits {} misses {}", h, m) });
                        return;
                    }
                }
            }
            // suffix
            stage.set("suffix");
            for (i, op) in case.suffix.iter().enumerate() {
                if let Some(v) = apply(op, i, if !suspended { "completed" } else if case.resume { "resumed" } else { "dropped" }) {
                    *result.borrow_mut() = Some(v);
                    return;
                }
            }
        },
        vsched::Opts { step_limit: 200_000, trace: false, explicit: false, cycle: false, excl_only: None },
    );
    match rep.outcome {
        vsched::Outcome::Deadlock(w) => {
            out.violation = Some(Violation {
                signature: sig("blocked"),
                clause: "blocked".into(),
                step: 0,
                expected: format!("operations complete while a call of {} is suspended (stage: {})", d.fn_name, stage.get()),
                observed: format!("an operation waits for a lock held by the suspended future: {:?}", w),
            });
        }
        vsched::Outcome::StepLimit => out.aborted_foreign = true,
        vsched::Outcome::Completed => {
            if let Some(Some(p)) = rep.panics.first() {
                eprintln!("INCONCLUSIVE: harness panic in C20 case: {}", p);
                std::process::exit(2);
            }
            out.violation = result.into_inner();
        }
    }
    out.nontrivial = nontrivial.get();
    if suspended_cell.get() {
        out.classes.push("suspended");
        out.classes.push(if case.resume { "resumed" } else { "dropped" });
    } else {
        out.classes.push("served_from_cache_without_suspension");
    }
    if nontrivial.get() {
        out.classes.push("interleaved_while_suspended");
    }
    if stale_suspended.get() {
        out.classes.push("suspended_after_stale_verdict");
    }
    vrt::clock::unfreeze();
    out
}
