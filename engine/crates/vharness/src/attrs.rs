//! C19 parser tier: generated attribute lists fed to the real attribute parsers
//! (`cachelito_macro_utils::parse_{sync,async}_attributes`) as proc_macro2 token streams.
//! Valid lists must parse to exactly the written values; invalid ones must be rejected
//! (Err, a `compile_error!` in a field, or a parser panic - all compile-time rejections).

use crate::infra::{hash_of, CaseOut, Dec, Tier, Violation};
use serde::Serialize;
use serde_json::{json, Value};

#[derive(Clone, Debug, Hash, PartialEq, Serialize)]
pub struct AttrItem {
    pub name: String,
    pub value: String,
    /// None = invalid item; Some(expected normalised field value)
    pub expect: Option<String>,
    pub why_invalid: String,
}

#[derive(Clone, Debug, Hash, PartialEq, Serialize)]
pub struct AttrCase {
    pub is_async: bool,
    pub items: Vec<AttrItem>,
    /// the whole list is syntactically not `name = value, ...`
    pub broken_syntax: Option<String>,
}

fn valid(name: &str, value: String, expect: String) -> AttrItem {
    AttrItem { name: name.to_string(), value, expect: Some(expect), why_invalid: String::new() }
}
fn invalid(name: &str, value: &str, why: &str) -> AttrItem {
    AttrItem { name: name.to_string(), value: value.to_string(), expect: None, why_invalid: why.to_string() }
}

const POLICIES: [(&str, &str); 6] = [("fifo", "FIFO"), ("lru", "LRU"), ("lfu", "LFU"), ("arc", "ARC"), ("random", "Random"), ("tlru", "TLRU")];

pub fn gen_item(d: &mut Dec, is_async: bool, want_valid: bool) -> AttrItem {
    let which = d.choose(12);
    let pick = |d: &mut Dec, xs: &[&str]| xs[d.choose(xs.len())].to_string();
    match which {
        0 => {
            if want_valid {
                let n = [1u64, 2, 3, 10, 100, 65536, 4_000_000_000][d.choose(7)];
                valid("limit", n.to_string(), format!("Some({})", n))
            } else {
                let v = pick(d, &["-1", "1.5", "\"3\"", "99999999999999999999999", "three", "true", "[1]"]);
                invalid("limit", &v, "limit must be a non-negative integer literal")
            }
        }
        1 => {
            if want_valid {
                let n = [1u64, 2, 60, 3600, 86400, 10_000_000_000][d.choose(6)];
                valid("ttl", n.to_string(), format!("Some({})", n))
            } else {
                let v = pick(d, &["-5", "0.5", "\"60\"", "99999999999999999999999", "sixty", "[60]"]);
                invalid("ttl", &v, "ttl must be an integer literal (seconds)")
            }
        }
        2 => {
            if want_valid {
                let (s, var) = POLICIES[d.choose(6)];
                valid("policy", format!("\"{}\"", s), if is_async { format!("\"{}\"", s) } else { format!("cachelito_core::EvictionPolicy::{}", var) })
            } else {
                let v = pick(d, &["\"LRU\"", "\"mru\"", "\"\"", "\"lru \"", "lru", "5", "\"fifo,lru\"", "\"Fifo\""]);
                invalid("policy", &v, "policy must be one of the six lower-case names")
            }
        }
        3 => {
            // scope exists for the sync macro only
            if is_async {
                invalid("scope", &pick(d, &["\"global\"", "\"thread\""]), "cache_async has no scope attribute")
            } else if want_valid {
                let th = d.chance(1, 2);
                valid("scope", if th { "\"thread\"".into() } else { "\"global\"".into() }, format!("cachelito_core::CacheScope::{}", if th { "ThreadLocal" } else { "Global" }))
            } else {
                let v = pick(d, &["\"Thread\"", "\"local\"", "\"\"", "thread", "1", "\"thread-local\""]);
                invalid("scope", &v, "scope must be \"global\" or \"thread\"")
            }
        }
        4 => {
            if want_valid {
                let n = [1u64, 2, 3, 10, 100, 512][d.choose(6)];
                let (txt, mult): (String, u64) = match d.choose(9) {
                    0 => (format!("\"{}KB\"", n), 1024),
                    1 => (format!("\"{}kb\"", n), 1024),
                    2 => (format!("\"{}Kb\"", n), 1024),
                    3 => (format!("\"{}MB\"", n), 1024 * 1024),
                    4 => (format!("\"{}mb\"", n), 1024 * 1024),
                    5 => (format!("\"{}GB\"", n.min(3)), 1024 * 1024 * 1024),
                    6 => (format!("\"{}\"", n * 100), 100),
                    7 => (format!("{}", n * 1000), 1000),
                    _ => (format!("\"{}gb\"", 1), 1024 * 1024 * 1024),
                };
                let bytes = match d.choose(1) {
                    _ => {
                        // recompute from the text so that the expectation is independent of the branches above
                        let t = txt.trim_matches('"').to_uppercase();
                        let (num, unit): (String, String) = (t.chars().take_while(|c| c.is_ascii_digit()).collect(), t.chars().skip_while(|c| c.is_ascii_digit()).collect());
                        let k: u64 = match unit.as_str() {
                            "KB" => 1024,
                            "MB" => 1024 * 1024,
                            "GB" => 1024 * 1024 * 1024,
                            _ => 1,
                        };
                        let _ = mult;
                        num.parse::<u64>().unwrap() * k
                    }
                };
                valid("max_memory", txt, format!("Some({})", bytes))
            } else {
                let v = pick(d, &["\"1TB\"", "\"1.5MB\"", "\"\"", "\"MB\"", "\"-1KB\"", "\"KB1\"", "1.5", "big", "\"1 KB\"", "\"ten MB\"", "-5", "\"1KiB\"", "\"0x10\""]);
                invalid("max_memory", &v, "max_memory must be <n>[KB|MB|GB] or an integer")
            }
        }
        5 => {
            if want_valid {
                let (txt, val) = [("0.1", 0.1f64), ("0.3", 0.3), ("1.0", 1.0), ("1.5", 1.5), ("3.0", 3.0), ("2", 2.0), ("10", 10.0), ("0.001", 0.001)][d.choose(8)];
                valid("frequency_weight", txt.to_string(), format!("Some({})", val))
            } else {
                let v = pick(d, &["0.0", "-1.0", "\"1.0\"", "heavy", "-2"]);
                invalid("frequency_weight", &v, "frequency_weight must be a number > 0")
            }
        }
        6 => {
            let n = pick(d, &["my_cache", "a", "users::by_id", "x y", ""]);
            valid("name", format!("{:?}", n), format!("name:{}", n))
        }
        7 | 8 | 9 => {
            let name = ["tags", "events", "dependencies"][which - 7];
            if want_valid {
                let k = d.choose(4);
                let xs: Vec<String> = (0..k).map(|_| pick(d, &["a", "b", "user_data", "x:y", "", "a b"])).collect();
                valid(name, format!("[{}]", xs.iter().map(|s| format!("{:?}", s)).collect::<Vec<_>>().join(", ")), format!("list:{}", xs.join("\u{1}")))
            } else {
                let v = pick(d, &["\"a\"", "[a, b]", "[1, 2]", "(\"a\", \"b\")", "[\"a\", 1]", "7"]);
                invalid(name, &v, "expected an array of string literals")
            }
        }
        10 | _ => {
            let name = if which == 10 { "invalidate_on" } else { "cache_if" };
            if want_valid {
                let p = pick(d, &["is_stale", "checks::is_stale", "crate::preds::ok", "self::f"]);
                valid(name, p.clone(), format!("path:{}", p.replace(' ', "")))
            } else {
                let v = pick(d, &["\"is_stale\"", "5", "[f]"]);
                invalid(name, &v, "expected a function path")
            }
        }
    }
}

pub fn decode(bytes: &[u8]) -> AttrCase {
    let mut d = Dec::new(bytes);
    let is_async = d.chance(1, 2);
    let n = d.choose(6);
    let mode = d.weighted(&[5, 3, 2, 1]);
    let mut items: Vec<AttrItem> = Vec::new();
    let mut names: Vec<String> = Vec::new();
    for _ in 0..n {
        for _try in 0..4 {
            let it = gen_item(&mut d, is_async, true);
            if !names.contains(&it.name) {
                names.push(it.name.clone());
                items.push(it);
                break;
            }
        }
    }
    // remove items that are invalid by construction (scope on async) from "valid" lists
    if mode == 0 {
        items.retain(|i| i.expect.is_some());
    }
    let mut broken_syntax = None;
    match mode {
        0 => {}
        1 => {
            // one invalid value
            let bad = gen_item(&mut d, is_async, false);
            items.retain(|i| i.name != bad.name && i.expect.is_some());
            let pos = d.choose(items.len() + 1);
            items.insert(pos, bad);
        }
        2 => {
            // unknown attribute name
            items.retain(|i| i.expect.is_some());
            let nm = ["limt", "polcy", "tag", "event", "dependency", "max_mem", "time_to_live", "scop", "Limit", "TTL", "capacity", "size", "a::limit", "weight", "cacheif", "invalidateon"][d.choose(16)];
            let val = ["3", "\"lru\"", "[\"a\"]", "f"][d.choose(4)];
            let pos = d.choose(items.len() + 1);
            items.insert(pos, AttrItem { name: nm.to_string(), value: val.to_string(), expect: None, why_invalid: "unknown attribute name".into() });
        }
        _ => {
            items.retain(|i| i.expect.is_some());
            broken_syntax = Some(["limit(3)", "limit", "= 3", "limit = 3 policy = \"lru\"", "limit: 3", "\"limit\" = 3", "limit = ", "3"][d.choose(8)].to_string());
        }
    }
    AttrCase { is_async, items, broken_syntax }
}

pub fn list_text(c: &AttrCase) -> String {
    let mut parts: Vec<String> = c.items.iter().map(|i| format!("{} = {}", i.name, i.value)).collect();
    if let Some(b) = &c.broken_syntax {
        parts.push(b.clone());
    }
    parts.join(", ")
}

pub fn describe(bytes: &[u8], _t: Tier) -> Value {
    let c = decode(bytes);
    json!({"macro": if c.is_async { "cache_async" } else { "cache" }, "attribute_list": list_text(&c), "expected": if c.items.iter().all(|i| i.expect.is_some()) && c.broken_syntax.is_none() { json!(c.items.iter().map(|i| (i.name.clone(), i.expect.clone().unwrap())).collect::<std::collections::BTreeMap<_, _>>()) } else { json!("rejected at compile time") }})
}

fn norm(ts: &proc_macro2::TokenStream) -> String {
    let mut s: String = ts.to_string().split_whitespace().collect();
    for suf in ["usize", "u64", "f64"] {
        s = s.replace(suf, "");
    }
    s
}

fn has_compile_error(ts: &proc_macro2::TokenStream) -> bool {
    ts.to_string().contains("compile_error")
}

fn num_eq(field: &str, expect: &str) -> bool {
    // Some(<number>) compared numerically
    let inner = |s: &str| s.strip_prefix("Some(").and_then(|x| x.strip_suffix(')')).map(|x| x.to_string());
    match (inner(field), inner(expect)) {
        (Some(a), Some(b)) => match (a.parse::<f64>(), b.parse::<f64>()) {
            (Ok(x), Ok(y)) => x == y,
            _ => a == b,
        },
        _ => field == expect,
    }
}

struct Parsed {
    fields: std::collections::BTreeMap<String, String>,
    any_compile_error: bool,
}

fn run_parser(is_async: bool, text: &str) -> Result<Result<Parsed, String>, String> {
    // Ok(Ok(parsed)) | Ok(Err(rejected by Err)) | Err(rejected: does not lex / parser panicked)
    let ts: proc_macro2::TokenStream = match text.parse() {
        Ok(t) => t,
        Err(e) => return Err(format!("does not tokenise: {}", e)),
    };
    let r = crate::infra::guarded(|| {
        let mut fields = std::collections::BTreeMap::new();
        let mut any = false;
        let mut put = |k: &str, v: String, ce: bool| {
            fields.insert(k.to_string(), v);
            any |= ce;
        };
        let path_str = |p: &Option<syn::Path>| p.as_ref().map(|p| format!("path:{}", quote::quote!(#p).to_string().replace(' ', ""))).unwrap_or_else(|| "None".into());
        if is_async {
            match cachelito_macro_utils::parse_async_attributes(ts) {
                Err(e) => return Err(e.to_string()),
                Ok(a) => {
                    put("limit", norm(&a.limit), has_compile_error(&a.limit));
                    put("policy", norm(&a.policy), has_compile_error(&a.policy));
                    put("ttl", norm(&a.ttl), has_compile_error(&a.ttl));
                    put("max_memory", norm(&a.max_memory), has_compile_error(&a.max_memory));
                    put("frequency_weight", norm(&a.frequency_weight), has_compile_error(&a.frequency_weight));
                    put("name", a.custom_name.map(|n| format!("name:{}", n)).unwrap_or_else(|| "None".into()), false);
                    put("tags", format!("list:{}", a.tags.join("\u{1}")), false);
                    put("events", format!("list:{}", a.events.join("\u{1}")), false);
                    put("dependencies", format!("list:{}", a.dependencies.join("\u{1}")), false);
                    put("invalidate_on", path_str(&a.invalidate_on), false);
                    put("cache_if", path_str(&a.cache_if), false);
                }
            }
        } else {
            match cachelito_macro_utils::parse_sync_attributes(ts) {
                Err(e) => return Err(e.to_string()),
                Ok(a) => {
                    put("limit", norm(&a.limit), has_compile_error(&a.limit));
                    put("policy", norm(&a.policy), has_compile_error(&a.policy));
                    put("ttl", norm(&a.ttl), has_compile_error(&a.ttl));
                    put("scope", norm(&a.scope), has_compile_error(&a.scope));
                    put("max_memory", norm(&a.max_memory), has_compile_error(&a.max_memory));
                    put("frequency_weight", norm(&a.frequency_weight), has_compile_error(&a.frequency_weight));
                    put("name", a.custom_name.map(|n| format!("name:{}", n)).unwrap_or_else(|| "None".into()), false);
                    put("tags", format!("list:{}", a.tags.join("\u{1}")), false);
                    put("events", format!("list:{}", a.events.join("\u{1}")), false);
                    put("dependencies", format!("list:{}", a.dependencies.join("\u{1}")), false);
                    put("invalidate_on", path_str(&a.invalidate_on), false);
                    put("cache_if", path_str(&a.cache_if), false);
                }
            }
        }
        Ok(Parsed { fields, any_compile_error: any })
    });
    match r {
        Ok(x) => Ok(x),
        Err(panic_msg) => Err(format!("parser panicked: {}", panic_msg)),
    }
}

pub fn run_case(bytes: &[u8], _t: Tier) -> CaseOut {
    let case = decode(bytes);
    let mut out = CaseOut { key: hash_of(&case), ..CaseOut::default() };
    let text = list_text(&case);
    let should_be_valid = case.broken_syntax.is_none() && case.items.iter().all(|i| i.expect.is_some());
    let mac = if case.is_async { "cache_async" } else { "cache" };
    out.classes.push(if case.is_async { "async_parser" } else { "sync_parser" });
    out.classes.push(if should_be_valid { "valid_list" } else { "invalid_list" });
    out.nontrivial = !case.items.is_empty() || case.broken_syntax.is_some();
    let res = run_parser(case.is_async, &text);
    let viol = |clause: &str, exp: String, obs: String| Violation { signature: format!("C19:parser:{}:{}", mac, clause), clause: clause.to_string(), step: 0, expected: exp, observed: obs };
    if should_be_valid {
        match res {
            Ok(Ok(p)) => {
                if p.any_compile_error {
                    out.violation = Some(viol("valid-rejected", format!("#[{}({})] is accepted", mac, text), format!("a field holds compile_error!: {:?}", p.fields)));
                } else {
                    // written attributes take their written values, all others keep their defaults
                    let defaults: [(&str, &str); 12] = [
                        ("limit", if case.is_async { "Option::<>::None" } else { "None" }),
                        ("policy", if case.is_async { "\"fifo\"" } else { "cachelito_core::EvictionPolicy::FIFO" }),
                        ("ttl", if case.is_async { "Option::<>::None" } else { "None" }),
                        ("scope", "cachelito_core::CacheScope::Global"),
                        ("max_memory", if case.is_async { "Option::<>::None" } else { "None" }),
                        ("frequency_weight", if case.is_async { "Option::<>::None" } else { "None" }),
                        ("name", "None"),
                        ("tags", "list:"),
                        ("events", "list:"),
                        ("dependencies", "list:"),
                        ("invalidate_on", "None"),
                        ("cache_if", "None"),
                    ];
                    for (k, def) in defaults {
                        let Some(got) = p.fields.get(k) else { continue };
                        let exp = case.items.iter().find(|i| i.name == k).and_then(|i| i.expect.clone()).unwrap_or_else(|| def.to_string());
                        let same = if exp.starts_with("Some(") {
                            num_eq(got, &exp)
                        } else if exp.starts_with("list:") && got.starts_with("list:") {
                            // the labels as written, as a set (listing one twice means nothing more)
                            let set = |x: &str| x["list:".len()..].split('\u{1}').map(|p| p.to_string()).collect::<std::collections::BTreeSet<String>>();
                            set(got) == set(&exp)
                        } else {
                            got.replace(' ', "") == exp.replace(' ', "")
                        };
                        if !same {
                            out.violation = Some(viol(&format!("field-{}", k), format!("#[{}({})]: {} = {}", mac, text, k, exp), format!("{} = {}", k, got)));
                            break;
                        }
                    }
                }
            }
            Ok(Err(e)) => out.violation = Some(viol("valid-rejected", format!("#[{}({})] is accepted", mac, text), format!("Err: {}", e.chars().take(200).collect::<String>()))),
            Err(e) => out.violation = Some(viol("valid-rejected", format!("#[{}({})] is accepted", mac, text), e.chars().take(200).collect::<String>())),
        }
    } else {
        match res {
            Ok(Ok(p)) if !p.any_compile_error => {
                let why = case.items.iter().find(|i| i.expect.is_none()).map(|i| format!("{} = {} ({})", i.name, i.value, i.why_invalid)).or(case.broken_syntax.clone()).unwrap_or_default();
                out.violation = Some(viol("invalid-accepted", format!("#[{}({})] is rejected at compile time: {}", mac, text, why), format!("accepted: {:?}", p.fields)));
            }
            _ => {}
        }
    }
    out
}
