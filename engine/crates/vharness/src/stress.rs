//! Free-running stress parts: generated programs run on real OS threads (no scheduler), with
//! optional delay injection through the instrumented locks.  The deterministic scheduler owns
//! lock operations only; races between atomics (statistics counters, hit counters), or
//! anything else that is not a lock, need real parallelism.  The schedule is not reproducible,
//! so a case is repeated a few times and a reported violation is confirmed by re-running the
//! program; the oracles are exact and hold for every interleaving, so timing can only hide a
//! violation, never invent one.

use crate::infra::{hash_of, CaseOut, Dec, Tier, Violation};
use crate::keys::{key_of, twin_value};
use crate::l2_checks::key_args;
use crate::macro_l2::{do_call, list_keys, static_corpus, stats_of, CallScript};
use serde::Serialize;
use serde_json::{json, Value};
use std::collections::{BTreeMap, BTreeSet};
use std::sync::atomic::{AtomicU64, Ordering};
use std::sync::{Arc, Barrier};
use vrt::{Flavour, FnDesc, Policy, Ret};

#[derive(Clone, Copy, Debug, PartialEq, Eq, Hash, Serialize)]
pub enum StressFocus {
    C03,
    C08,
    C15,
    C18,
    /// scripted outcomes: Err results (C09), cache_if verdicts (C10), invalidate_on verdicts (C11)
    C09,
    C10,
    C11,
}

#[derive(Clone, Debug, Hash, PartialEq, Serialize)]
pub struct StressCase {
    pub fn_id: u32,
    /// sequential prefix: key indices called one after the other
    pub prefix: Vec<u8>,
    /// per thread: (key index, repetitions) bursts
    pub threads: Vec<Vec<(u8, u16)>>,
    /// (thread, lock acquisition index, microseconds)
    pub delay: Option<(u8, u32, u32)>,
    /// (thread, lock release index, microseconds): that thread keeps one lock for a long time
    pub hold: Option<(u8, u32, u32)>,
}

fn candidates(focus: StressFocus) -> Vec<u32> {
    let c = static_corpus();
    let shape = |d: &FnDesc| d.flavour != Flavour::Thread && d.gates == 0 && d.receiver == vrt::Receiver::None && d.args.len() == 2;
    let simple = |d: &FnDesc| shape(d) && !d.is_result() && !d.cache_if && !d.invalidate_on;
    c.funcs
        .iter()
        .filter(|d| if matches!(focus, StressFocus::C09 | StressFocus::C10 | StressFocus::C11) { shape(d) } else { simple(d) })
        .filter(|d| match focus {
            StressFocus::C09 => d.family == "res",
            StressFocus::C10 => d.family == "cif" || (d.family == "inv" && d.cache_if),
            StressFocus::C11 => d.family == "inv",
            StressFocus::C03 => d.family == "concu",
            StressFocus::C15 => matches!(d.family, "concu" | "conc"),
            StressFocus::C18 => d.family == "conc" && d.ttl.is_none(),
            StressFocus::C08 => matches!(d.family, "conc" | "grid") && d.flavour == Flavour::Async && d.effective_policy() == Policy::Lfu && d.limit == Some(2) && d.ttl.is_none() && d.max_memory.is_none(),
        })
        .map(|d| d.id)
        .collect()
}

pub fn decode(bytes: &[u8], focus: StressFocus, tier: Tier) -> StressCase {
    let mut d = Dec::new(bytes);
    let cands = candidates(focus);
    let fn_id = cands[d.choose16(cands.len())];
    let nt = 2 + d.choose(if tier == Tier::Thorough { 7 } else { 5 });
    let scale: u16 = [20, 100, 400][d.choose(3)];
    let mut prefix = Vec::new();
    let mut threads = Vec::new();
    match focus {
        StressFocus::C08 => {
            // k1 gets an exact number of hits below the sum of the contested hits of k0
            let per: Vec<u16> = (0..nt).map(|_| scale / 2 + d.choose(scale as usize / 2 + 1) as u16).collect();
            let total: u32 = per.iter().map(|x| *x as u32).sum();
            let c = (total * (60 + d.choose(35) as u32) / 100).max(1);
            prefix.push(1);
            prefix.push(0);
            for _ in 0..c {
                prefix.push(1);
            }
            for p in per {
                threads.push(vec![(0u8, p)]);
            }
        }
        _ => {
            let n_keys = match focus {
                StressFocus::C18 => 4 + d.choose(3),
                _ => 1 + d.choose(3),
            };
            for _ in 0..d.choose(3) {
                prefix.push(d.choose(n_keys) as u8);
            }
            for _ in 0..nt {
                let bursts = 1 + d.choose(4);
                threads.push((0..bursts).map(|_| (d.choose(n_keys) as u8, 1 + d.choose16(scale as usize) as u16)).collect());
            }
        }
    }
    let delay = if d.chance(1, 2) { Some((d.choose(nt) as u8, 1 + d.choose(40) as u32, [50u32, 300, 1500][d.choose(3)])) } else { None };
    // now and then one thread sits on a lock for 120 ms (timed lock attempts elsewhere time out)
    let hold = if d.chance(1, 12) { Some((d.choose(nt) as u8, 1 + d.choose(60) as u32, 120_000u32)) } else { None };
    StressCase { fn_id, prefix, threads, delay, hold }
}

pub fn describe(bytes: &[u8], focus: StressFocus, tier: Tier) -> Value {
    let c = decode(bytes, focus, tier);
    let d = static_corpus().by_id(c.fn_id);
    let mut v = serde_json::to_value(&c).unwrap_or(Value::Null);
    v["function"] = json!({"fn": d.fn_name, "macro": if d.flavour == Flavour::Async { "cache_async" } else { "cache" }, "attrs": d.attr_text});
    v
}

/// Script of call number `i` of thread `t` (deterministic in the case, not in the schedule).
fn script_of(d: &FnDesc, case_key: u64, t: usize, i: usize) -> CallScript {
    let h = crate::infra::mix(case_key, (t as u64) << 32 | i as u64);
    CallScript { ok: !d.is_result() || h % 2 == 0, cif: !d.cache_if || (h >> 8) % 2 == 0, inv: d.invalidate_on && (h >> 16) % 3 == 0 }
}

/// Wrapper semantics: is the result of an executing call with this script stored?
fn storable(d: &FnDesc, sc: &CallScript) -> bool {
    if d.cache_if {
        sc.cif && (d.flavour == Flavour::Async || !d.is_result() || sc.ok)
    } else {
        !d.is_result() || sc.ok
    }
}

fn fresh_ret(d: &FnDesc, k: u8, version: u32, sc: &CallScript) -> Ret {
    let v = twin_value(d, None, &key_args(k), version);
    if d.is_result() {
        Ret::Res(if sc.ok { Ok(v) } else { Err(v) })
    } else {
        Ret::Str(v)
    }
}

struct CallRec {
    t: usize,
    i: usize,
    ret: Ret,
    k: u8,
    start: u64,
    end: u64,
    executed: u32,
    ok_value: bool,
}

struct RunObs {
    recs: Vec<CallRec>,
    prefix_execs: u64,
    prefix_calls: u64,
}

fn run_once(case: &StressCase, d: &'static FnDesc, scripted: bool) -> Option<RunObs> {
    let case_key = hash_of(case);
    let corpus = static_corpus();
    // reset: empty cache, zero statistics (registration happened in the warm-up call)
    let _ = cachelito_core::invalidate_with(d.cache_name, |_k: &str| true);
    let _ = cachelito_core::stats_registry::reset(d.cache_name);
    let mut prefix_execs = 0u64;
    for k in &case.prefix {
        match do_call(&corpus, d, None, &key_args(*k), &CallScript::default(), 1) {
            Ok(o) => prefix_execs += o.executed as u64,
            Err(_) => return None,
        }
    }
    let seq = Arc::new(AtomicU64::new(1));
    let barrier = Arc::new(Barrier::new(case.threads.len()));
    let mut hs = Vec::new();
    for (t, bursts) in case.threads.iter().enumerate() {
        let bursts = bursts.clone();
        let seq = seq.clone();
        let barrier = barrier.clone();
        let delay = case.delay.filter(|(dt, _, _)| *dt as usize == t);
        let hold = case.hold.filter(|(dt, _, _)| *dt as usize == t);
        hs.push(std::thread::spawn(move || {
            let corpus = static_corpus();
            let mut recs = Vec::new();
            barrier.wait();
            if let Some((_, after, us)) = delay {
                vsched::set_delay(after, us);
            }
            if let Some((_, after, us)) = hold {
                vsched::set_hold(after, us);
            }
            let mut i = 0usize;
            for (k, n) in bursts {
                let args = key_args(k);
                for _ in 0..n {
                    let (sc, ver) = if scripted { (script_of(d, case_key, t, i), 1 + (t as u32) * 100_000 + i as u32) } else { (CallScript::default(), 1) };
                    let expect = fresh_ret(d, k, ver, &sc);
                    let start = seq.fetch_add(1, Ordering::SeqCst);
                    let o = do_call(&corpus, d, None, &args, &sc, ver);
                    let end = seq.fetch_add(1, Ordering::SeqCst);
                    match o {
                        Ok(o) => recs.push(CallRec { t, i, k, start, end, executed: o.executed, ok_value: (scripted && o.executed == 0) || o.ret == expect, ret: o.ret }),
                        Err(_) => return None,
                    }
                    i += 1;
                }
            }
            vsched::clear_delay();
            vsched::clear_hold();
            Some(recs)
        }));
    }
    let mut recs = Vec::new();
    for h in hs {
        recs.extend(h.join().ok()??);
    }
    Some(RunObs { recs, prefix_execs, prefix_calls: case.prefix.len() as u64 })
}

fn judge(case: &StressCase, d: &'static FnDesc, focus: StressFocus, obs: &RunObs, out: &mut CaseOut) -> Option<Violation> {
    let fl = if d.flavour == Flavour::Async { "async" } else { "sync" };
    let calls = obs.recs.len() as u64 + obs.prefix_calls;
    let execs: u64 = obs.recs.iter().map(|r| r.executed as u64).sum::<u64>() + obs.prefix_execs;
    let threads_per_key: BTreeMap<u8, usize> = {
        let mut m: BTreeMap<u8, BTreeSet<usize>> = BTreeMap::new();
        for (t, b) in case.threads.iter().enumerate() {
            for (k, _) in b {
                m.entry(*k).or_default().insert(t);
            }
        }
        m.into_iter().map(|(k, s)| (k, s.len())).collect()
    };
    let contested = threads_per_key.values().any(|n| *n >= 2);
    // every call returns the function's value for its own arguments (all foci)
    if let Some(r) = obs.recs.iter().find(|r| !r.ok_value) {
        if focus == StressFocus::C18 {
            return Some(Violation { signature: format!("C18:{}:stress:value", fl), clause: "stress-value".into(), step: 0, expected: format!("{}: every call returns the value of its own arguments (key index {})", d.fn_name, r.k), observed: "another value".into() });
        }
        out.aborted_foreign = true;
        return None;
    }
    match focus {
        StressFocus::C09 | StressFocus::C10 | StressFocus::C11 => {
            let case_key = hash_of(case);
            let id = match focus {
                StressFocus::C09 => "C09",
                StressFocus::C10 => "C10",
                _ => "C11",
            };
            // values an entry may legitimately hold, per key: results of executing calls that the wrapper stores
            let mut allowed: BTreeMap<u8, Vec<Ret>> = BTreeMap::new();
            let mut unstorable_exec: BTreeSet<u8> = BTreeSet::new();
            for k in &case.prefix {
                // prefix calls run with the default script (Ok, accepted, fresh) and version 1
                allowed.entry(*k).or_default().push(fresh_ret(d, *k, 1, &CallScript::default()));
            }
            for r in obs.recs.iter().filter(|r| r.executed > 0) {
                let sc = script_of(d, case_key, r.t, r.i);
                if storable(d, &sc) {
                    allowed.entry(r.k).or_default().push(r.ret.clone());
                } else {
                    unstorable_exec.insert(r.k);
                }
            }
            out.nontrivial = contested && unstorable_exec.iter().any(|k| allowed.contains_key(k) && threads_per_key.get(k).copied().unwrap_or(0) >= 2);
            for r in &obs.recs {
                let sc = script_of(d, case_key, r.t, r.i);
                if focus == StressFocus::C11 && sc.inv && r.executed == 0 {
                    return Some(Violation {
                        signature: format!("C11:{}:stress:stale-served", fl),
                        clause: "stress-stale-served".into(),
                        step: r.i,
                        expected: format!("{}: thread {} call {} (key index {}): its invalidate_on check returns true for whatever is cached, so the body runs", d.fn_name, r.t, r.i, r.k),
                        observed: format!("returned {:?} without running the body", r.ret),
                    });
                }
                if r.executed == 0 && !allowed.get(&r.k).map(|v| v.contains(&r.ret)).unwrap_or(false) {
                    let what = match (&r.ret, focus) {
                        (Ret::Res(Err(_)), _) => "an Err result",
                        (_, StressFocus::C10) => "a result its cache_if call rejected (or an Err)",
                        _ => "a result that was not to be stored",
                    };
                    let relevant = match focus {
                        StressFocus::C09 => matches!(r.ret, Ret::Res(Err(_))),
                        StressFocus::C10 => d.cache_if,
                        _ => true,
                    };
                    if relevant {
                        return Some(Violation {
                            signature: format!("{}:{}:stress:served-unstorable", id, fl),
                            clause: "stress-served-unstorable".into(),
                            step: r.i,
                            expected: format!("{}: a call served from the cache returns a result that some executing call was allowed to store", d.fn_name),
                            observed: format!("thread {} call {} (key index {}) was served {:?}: {}", r.t, r.i, r.k, r.ret, what),
                        });
                    }
                }
            }
            // keys for which nothing storable was ever produced are not cached afterwards
            if let Some(listing) = list_keys(d.cache_name) {
                for k in unstorable_exec.iter().filter(|k| !allowed.contains_key(k) && !case.prefix.contains(k)) {
                    if listing.contains(&key_of(d, None, &key_args(*k))) && focus != StressFocus::C11 {
                        return Some(Violation {
                            signature: format!("{}:{}:stress:unstorable-cached", id, fl),
                            clause: "stress-unstorable-cached".into(),
                            step: 0,
                            expected: format!("{}: every result for key index {} was an Err or was rejected by cache_if: nothing is cached for it", d.fn_name, k),
                            observed: format!("listing {:?}", listing),
                        });
                    }
                }
            }
        }
        StressFocus::C15 => {
            out.nontrivial = contested;
            if let Some((h, m)) = stats_of(d.cache_name) {
                if h + m != calls || m != execs {
                    return Some(Violation {
                        signature: format!("C15:{}:stress-stats", fl),
                        clause: "stress-stats".into(),
                        step: 0,
                        expected: format!("{} ({} threads, free-running): hits + misses = {} lookups and misses = {} executions", d.cache_name, case.threads.len(), calls, execs),
                        observed: format!("hits {} misses {}", h, m),
                    });
                }
            }
        }
        StressFocus::C03 => {
            out.nontrivial = contested;
            // a call that started after an executing call for the same key had returned must hit
            let mut first_done: BTreeMap<u8, u64> = BTreeMap::new();
            for k in &case.prefix {
                first_done.entry(*k).or_insert(0);
            }
            for r in obs.recs.iter().filter(|r| r.executed > 0) {
                let e = first_done.entry(r.k).or_insert(u64::MAX);
                *e = (*e).min(r.end);
            }
            for r in &obs.recs {
                if r.executed > 0 && first_done.get(&r.k).map(|e| *e < r.start).unwrap_or(false) {
                    return Some(Violation {
                        signature: format!("C03:{}:stress:recomputed-after-store", fl),
                        clause: "recomputed-after-store".into(),
                        step: 0,
                        expected: format!("{}: a call for key index {} that started (seq {}) after a storing call had returned (seq {}) is served from the cache", d.fn_name, r.k, r.start, first_done[&r.k]),
                        observed: "the body ran again".into(),
                    });
                }
            }
        }
        StressFocus::C18 => {
            out.nontrivial = contested;
            let listing = list_keys(d.cache_name)?;
            if let Some(n) = d.limit {
                if listing.len() > n {
                    return Some(Violation { signature: format!("C18:{}:stress:bound-at-quiescence", fl), clause: "stress-bound".into(), step: 0, expected: format!("{}: at most {} entries once all callers returned", d.fn_name, n), observed: format!("{:?}", listing) });
                }
                // fresh stores flush everything older under FIFO / LRU; the bound holds after each
                let corpus = static_corpus();
                for j in 0..(n + 1) as u8 {
                    let _ = do_call(&corpus, d, None, &key_args(40 + j), &CallScript::default(), 1);
                    let l = list_keys(d.cache_name)?;
                    if l.len() > n {
                        return Some(Violation { signature: format!("C18:{}:stress:bound-in-probe", fl), clause: "stress-bound-probe".into(), step: j as usize, expected: format!("{}: at most {} entries after a sequential store", d.fn_name, n), observed: format!("{:?}", l) });
                    }
                }
                if matches!(d.effective_policy(), Policy::Fifo | Policy::Lru) && d.max_memory.is_none() {
                    let l = list_keys(d.cache_name)?;
                    let fresh: BTreeSet<String> = (0..(n + 1) as u8).map(|j| key_of(d, None, &key_args(40 + j))).collect();
                    if let Some(old) = l.iter().find(|k| !fresh.contains(*k)) {
                        return Some(Violation { signature: format!("C18:{}:stress:unevictable", fl), clause: "stress-unevictable".into(), step: 0, expected: format!("{}: {} fresh stores evict every older entry", d.fn_name, n + 1), observed: format!("{:?} is still cached: {:?}", old, l) });
                    }
                }
            }
        }
        StressFocus::C08 => {
            let recomputed = obs.recs.iter().any(|r| r.executed > 0);
            let k0 = key_of(d, None, &key_args(0));
            let k1 = key_of(d, None, &key_args(1));
            let before = list_keys(d.cache_name)?;
            if recomputed || before != [k0.clone(), k1.clone()].into_iter().collect::<BTreeSet<_>>() {
                out.classes.push("concurrent_phase_changed_the_store");
                return None;
            }
            let h0 = obs.recs.len() as u64;
            let h1 = case.prefix.iter().filter(|k| **k == 1).count() as u64 - 1;
            out.nontrivial = h0 > h1 && h1 > 0 && case.threads.len() >= 2;
            let corpus = static_corpus();
            let o = do_call(&corpus, d, None, &key_args(60), &CallScript::default(), 1).ok()?;
            let after = list_keys(d.cache_name)?;
            if o.executed == 1 && after.contains(&key_of(d, None, &key_args(60))) && h0 > h1 && !after.contains(&k0) && after.contains(&k1) {
                return Some(Violation {
                    signature: format!("C08:{}:lfu:stress-hits", fl),
                    clause: "stress-hits".into(),
                    step: 0,
                    expected: format!("{} ({}): key index 0 was served {} times by {} free-running threads, key index 1 {} times: the overflowing store evicts key index 1", d.fn_name, d.attr_text, h0, case.threads.len(), h1),
                    observed: format!("key index 0 was evicted; the cache holds {:?}", after),
                });
            }
        }
    }
    None
}

pub fn run_case(bytes: &[u8], focus: StressFocus, tier: Tier) -> CaseOut {
    let case = decode(bytes, focus, tier);
    let mut out = CaseOut { key: hash_of(&case), ..CaseOut::default() };
    let corpus = static_corpus();
    let d = corpus.by_id(case.fn_id);
    crate::infra::install_panic_hook_once();
    // first use (registration) sequentially
    if do_call(&corpus, d, None, &key_args(63), &CallScript::default(), 0).is_err() {
        out.aborted_foreign = true;
        return out;
    }
    out.classes.push(if d.flavour == Flavour::Async { "flavour_async" } else { "flavour_global" });
    // the interleaving is not under our control: repeat the program a few times
    for _rep in 0..4 {
        let Some(obs) = run_once(&case, d, matches!(focus, StressFocus::C09 | StressFocus::C10 | StressFocus::C11)) else {
            out.aborted_foreign = true;
            return out;
        };
        if let Some(v) = judge(&case, d, focus, &obs, &mut out) {
            out.violation = Some(v);
            break;
        }
        if out.aborted_foreign {
            break;
        }
    }
    if out.nontrivial {
        out.classes.push("contested_key");
    }
    out
}

macro_rules! st_fns {
    ($run:ident, $desc:ident, $f:expr) => {
        pub fn $run(b: &[u8], t: Tier) -> CaseOut {
            run_case(b, $f, t)
        }
        pub fn $desc(b: &[u8], t: Tier) -> Value {
            describe(b, $f, t)
        }
    };
}
st_fns!(run_c03, desc_c03, StressFocus::C03);
st_fns!(run_c08, desc_c08, StressFocus::C08);
st_fns!(run_c15, desc_c15, StressFocus::C15);
st_fns!(run_c18, desc_c18, StressFocus::C18);
st_fns!(run_c09, desc_c09, StressFocus::C09);
st_fns!(run_c10, desc_c10, StressFocus::C10);
st_fns!(run_c11, desc_c11, StressFocus::C11);
