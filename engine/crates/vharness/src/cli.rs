//! Command-line front end (shared by `cv` and by generated program binaries).
use serde_json::Value;
use crate::infra::{self, Tier};

fn arg_after(args: &[String], flag: &str) -> Option<String> {
    args.iter().position(|a| a == flag).and_then(|i| args.get(i + 1).cloned())
}

fn quiet_panics() {
    infra::install_panic_hook_once();
}

pub fn main() {
    let args: Vec<String> = std::env::args().collect();
    let cmd = args.get(1).map(|s| s.as_str()).unwrap_or("");
    let tier = arg_after(&args, "--tier")
        .or_else(|| std::env::var("VERIF_TIER").ok())
        .and_then(|s| Tier::parse(&s))
        .unwrap_or(Tier::Quick);
    match cmd {
        "check" => {
            let id = args.get(2).expect("usage: cv check <ID> [--tier quick|thorough]");
            let Some(prop) = crate::props::find(id) else {
                eprintln!("unknown property {id}");
                std::process::exit(2);
            };
            let seed = infra::verif_seed();
            let r = infra::run_check(&prop, tier, seed);
            std::process::exit(r.exit);
        }
        "worker" => {
            quiet_panics();
            let id = args.get(2).expect("id");
            let prop = crate::props::find(id).expect("property");
            let seed: u64 = arg_after(&args, "--seed").and_then(|s| s.parse().ok()).expect("--seed");
            let index: usize = arg_after(&args, "--index").and_then(|s| s.parse().ok()).expect("--index");
            let workers: usize = arg_after(&args, "--workers").and_then(|s| s.parse().ok()).expect("--workers");
            let out = arg_after(&args, "--out").expect("--out");
            let rep = infra::run_worker(&prop, tier, seed, index, workers);
            std::fs::write(out, serde_json::to_string(&rep.to_json()).unwrap()).expect("write report");
        }
        "case" => {
            quiet_panics();
            let id = args.get(2).expect("id");
            let part_name = args.get(3).expect("part");
            let prop = crate::props::find(id).expect("property");
            let part = prop.parts.iter().find(|p| p.name == part_name).expect("part");
            let bytes = infra::unhex(&arg_after(&args, "--hex").unwrap_or_default());
            let out = (part.run)(&bytes, tier);
            println!("CASEOUT {}", serde_json::to_string(&infra::caseout_to_json(&out)).unwrap());
        }
        "replay" => {
            quiet_panics();
            let path = args.get(2).expect("usage: cv replay <file>");
            let v: Value = serde_json::from_str(&std::fs::read_to_string(path).expect("read replay")).expect("parse replay");
            let id = v["property"].as_str().expect("property");
            let part_name = v["part"].as_str().unwrap_or("core");
            let tier = v["tier"].as_str().and_then(Tier::parse).unwrap_or(Tier::Quick);
            let prop = crate::props::find(id).expect("property");
            if part_name == "regress" {
                let name = v["regress_case"].as_str().unwrap_or("");
                let Some((_, f)) = crate::regress::cases_for(id).into_iter().find(|(n, _)| *n == name) else {
                    eprintln!("unknown regression case {name}");
                    std::process::exit(2);
                };
                println!("case: {}", name);
                match f() {
                    Some(viol) => {
                        println!("expected: {}\nobserved: {}", viol.expected, viol.observed);
                        println!("VIOLATION property={} replay={} signature={}", id, path, viol.signature);
                        std::process::exit(1);
                    }
                    None => {
                        println!("no violation on this tree");
                        std::process::exit(0);
                    }
                }
            }
            if part_name == "prog" {
                if !crate::macro_l2::is_generated_corpus() {
                    std::process::exit(crate::c19prog::replay_prog(&v, path));
                }
                let inner = v["inner_property"].as_str().unwrap_or("C19P");
                let prop = crate::props::find(inner).expect("inner property");
                let part = &prop.parts[0];
                let bytes = infra::unhex(v["bytes"].as_str().unwrap_or(""));
                let out = if part.fresh_process { (part.run)(&bytes, tier) } else { infra::run_forked(|| (part.run)(&bytes, tier)) };
                println!("case: {}", serde_json::to_string(&(part.describe)(&bytes, tier)).unwrap());
                match out.violation {
                    Some(viol) => {
                        println!("clause: {}\nstep: {}\nexpected: {}\nobserved: {}", viol.clause, viol.step, viol.expected, viol.observed);
                        println!("VIOLATION property={} replay={} signature={}", id, path, viol.signature);
                        std::process::exit(1);
                    }
                    None => {
                        println!("no violation on this tree");
                        std::process::exit(0);
                    }
                }
            }
            if part_name == "custom" && id == "C19" {
                // invalid tier / compile failure: re-check the recorded attribute list with the parser
                println!("case: {}", serde_json::to_string(&v["case"]).unwrap());
                println!("(compile-level finding; re-run `./run check C19` to re-evaluate on this tree)");
                std::process::exit(2);
            }
            if part_name == "custom" && matches!(id, "C17" | "C18" | "C03" | "C14" | "C15" | "C08" | "C07") {
                // bounded-exhaustive finding: explicit scheduler choices
                let case: crate::sched_checks::SchedCase = serde_json::from_value(v["case"]["case"].clone()).expect("explicit schedule case");
                let focus = match id {
                    "C17" => crate::sched_checks::SF::C17,
                    "C18" => crate::sched_checks::SF::C18,
                    "C03" => crate::sched_checks::SF::C03,
                    "C14" => crate::sched_checks::SF::C14,
                    "C08" => crate::sched_checks::SF::C08,
                    "C07" => crate::sched_checks::SF::C07,
                    _ => crate::sched_checks::SF::C15,
                };
                let out = crate::sched_checks::judge(&case, focus, Some(true));
                println!("case: {}", serde_json::to_string(&v["case"]).unwrap());
                match out.violation {
                    Some(viol) => {
                        println!("clause: {}\nexpected: {}\nobserved: {}", viol.clause, viol.expected, viol.observed);
                        println!("VIOLATION property={} replay={} signature={}:exhaustive", id, path, viol.signature);
                        std::process::exit(1);
                    }
                    None => {
                        println!("no violation on this tree");
                        std::process::exit(0);
                    }
                }
            }
            let Some(part) = prop.parts.iter().find(|p| p.name == part_name) else {
                eprintln!("replay: part {part_name} is not byte-driven; see the case in the file");
                std::process::exit(2);
            };
            let bytes = infra::unhex(v["bytes"].as_str().unwrap_or(""));
            // Parts whose cases share the process (layer 1: harness-owned statics that every case
            // resets first) are replayed up to three times in this process: the same case after
            // itself is a legitimate longer history, and a defect that needs an operation to
            // have happened before (a second reset, a second expiry) shows from the second run.
            // Free-running parts (real threads, interleaving not reproducible) get twelve attempts.
            let runs = if matches!(part.name, "stress" | "firstuse") {
                12
            } else if part.forked || part.fresh_process {
                1
            } else {
                3
            };
            // a first-use race exists once per process: every attempt in its own pristine child
            let per_child = part.name == "firstuse";
            let once = |b: &Vec<u8>| if per_child { infra::run_forked(|| (part.run)(b, tier)) } else { (part.run)(b, tier) };
            let mut out = once(&bytes);
            for _ in 1..runs {
                if out.violation.is_some() {
                    break;
                }
                out = once(&bytes);
            }
            println!("case: {}", serde_json::to_string(&(part.describe)(&bytes, tier)).unwrap());
            match out.violation {
                Some(viol) => {
                    println!("clause: {}\nstep: {}\nexpected: {}\nobserved: {}", viol.clause, viol.step, viol.expected, viol.observed);
                    println!("VIOLATION property={} replay={} signature={}", id, path, viol.signature);
                    std::process::exit(1);
                }
                None => {
                    println!("no violation on this tree");
                    std::process::exit(0);
                }
            }
        }
        "list" => {
            for p in crate::props::all() {
                println!("{}", p.id);
            }
        }
        _ => {
            eprintln!("usage: cv check <ID> [--tier quick|thorough] | replay <file> | list");
            std::process::exit(2);
        }
    }
}
