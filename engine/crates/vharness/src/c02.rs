//! C02: distinct argument tuples never share a cache entry (and equal tuples do).

use crate::infra::{hash_of, CaseOut, Dec, Tier, Violation};
use crate::keys::{key_of, twin_value};
use crate::macro_l2::{do_call, list_keys, static_corpus, CallScript};
use serde_json::{json, Value};
use vrt::{ArgVal, Flavour, FnDesc, Receiver, Ret, Ty};

const TOKENS: [&str; 20] = ["", "a", "b", "1", "2", "|", "\"", "\\", ", ", ")", "]", "Some(", "None", "\\\"", " ", "12", "3", "'", "\n", "é"];
const CHARS: [char; 12] = ['a', '|', '"', '\\', ',', ' ', ')', '\'', '\n', 'é', '0', '1'];

fn gen_string(d: &mut Dec) -> String {
    let n = d.weighted(&[2, 4, 4, 2, 1]);
    let mut s = String::new();
    for _ in 0..n {
        s.push_str(TOKENS[d.choose(TOKENS.len())]);
    }
    s
}

fn int_bounds(ty: &Ty) -> (i128, u128, bool) {
    // (min, max, signed)
    match ty {
        Ty::U8 => (0, u8::MAX as u128, false),
        Ty::U16 => (0, u16::MAX as u128, false),
        Ty::U32 => (0, u32::MAX as u128, false),
        Ty::U64 | Ty::Usize => (0, u64::MAX as u128, false),
        Ty::U128 => (0, u128::MAX, false),
        Ty::I8 => (i8::MIN as i128, i8::MAX as u128, true),
        Ty::I16 => (i16::MIN as i128, i16::MAX as u128, true),
        Ty::I32 => (i32::MIN as i128, i32::MAX as u128, true),
        Ty::I64 | Ty::Isize => (i64::MIN as i128, i64::MAX as u128, true),
        Ty::I128 => (i128::MIN, i128::MAX as u128, true),
        _ => (0, 0, false),
    }
}

pub fn gen_val(ty: &Ty, d: &mut Dec, depth: usize) -> ArgVal {
    match ty {
        Ty::U8 | Ty::U16 | Ty::U32 | Ty::U64 | Ty::U128 | Ty::Usize => {
            let (_, max, _) = int_bounds(ty);
            let v = match d.weighted(&[4, 3, 2, 1, 2]) {
                0 => d.choose(4) as u128,
                1 => 10 + d.choose(120) as u128,
                2 => max,
                3 => max - 1,
                _ => d.u64() as u128 % (max.saturating_add(1).max(1)),
            };
            ArgVal::U(v.min(max))
        }
        Ty::I8 | Ty::I16 | Ty::I32 | Ty::I64 | Ty::I128 | Ty::Isize => {
            let (min, max, _) = int_bounds(ty);
            let v: i128 = match d.weighted(&[4, 3, 2, 1, 1, 2]) {
                0 => d.choose(4) as i128,
                1 => -(d.choose(24) as i128),
                2 => 10 + d.choose(110) as i128,
                3 => min,
                4 => max as i128,
                _ => (d.u64() as i64 as i128).clamp(min, max as i128),
            };
            ArgVal::I(v.clamp(min, max as i128))
        }
        Ty::F32 => {
            let c = [0.0f32, -0.0, 1.0, 1.5, f32::NAN, f32::INFINITY, f32::NEG_INFINITY, 1e10, f32::MIN_POSITIVE, 12.0, 1.2, 0.12];
            let v = if d.chance(3, 4) { c[d.choose(c.len())] } else { f32::from_bits(d.u32()) };
            ArgVal::F32(if v.is_nan() { f32::NAN.to_bits() } else { v.to_bits() })
        }
        Ty::F64 => {
            let c = [0.0f64, -0.0, 1.0, 1.5, f64::NAN, f64::INFINITY, f64::NEG_INFINITY, 1e10, f64::MIN_POSITIVE, 12.0, 1.2, 0.12];
            let v = if d.chance(3, 4) { c[d.choose(c.len())] } else { f64::from_bits(d.u64()) };
            ArgVal::F64(if v.is_nan() { f64::NAN.to_bits() } else { v.to_bits() })
        }
        Ty::Bool => ArgVal::Bool(d.chance(1, 2)),
        Ty::Char => ArgVal::Char(CHARS[d.choose(CHARS.len())]),
        Ty::String | Ty::StrRef => ArgVal::Str(gen_string(d)),
        Ty::Tup(ts) => ArgVal::Tup(ts.iter().map(|t| gen_val(t, d, depth + 1)).collect()),
        Ty::Opt(t) => {
            if d.chance(1, 3) {
                ArgVal::Opt(None)
            } else {
                ArgVal::Opt(Some(Box::new(gen_val(t, d, depth + 1))))
            }
        }
        Ty::Vec(t) | Ty::Slice(t) => {
            let n = d.weighted(&[2, 3, 3, 1]);
            ArgVal::Seq((0..n).map(|_| gen_val(t, d, depth + 1)).collect())
        }
        Ty::UStruct => ArgVal::UStruct(d.choose(4) as u32 * if d.chance(1, 4) { 11 } else { 1 }, gen_string(d)),
        Ty::UPoint => ArgVal::Tup(vec![gen_val(&Ty::U32, d, depth + 1), gen_val(&Ty::U16, d, depth + 1)]),
        Ty::UWrap => ArgVal::Tup(vec![gen_val(&Ty::U8, d, depth + 1)]),
        Ty::UEnum => match d.choose(3) {
            0 => ArgVal::UEnum(0, 0, String::new()),
            1 => ArgVal::UEnum(1, d.choose(4) as i64, String::new()),
            _ => ArgVal::UEnum(2, d.choose(5) as i64 - 2, gen_string(d)),
        },
    }
}

/// Mutable access to the string leaves of a tuple of values, in rendering order.
fn string_leaves<'a>(v: &'a mut ArgVal, out: &mut Vec<&'a mut String>) {
    match v {
        ArgVal::Str(s) => out.push(s),
        ArgVal::Tup(vs) | ArgVal::Seq(vs) => {
            for x in vs.iter_mut() {
                string_leaves(x, out);
            }
        }
        ArgVal::Opt(Some(b)) => string_leaves(b, out),
        ArgVal::UStruct(_, s) => out.push(s),
        ArgVal::UEnum(2, _, s) => out.push(s),
        _ => {}
    }
}

fn uint_leaves<'a>(v: &'a mut ArgVal, out: &mut Vec<&'a mut u128>) {
    match v {
        ArgVal::U(x) => out.push(x),
        ArgVal::Tup(vs) | ArgVal::Seq(vs) => {
            for x in vs.iter_mut() {
                uint_leaves(x, out);
            }
        }
        ArgVal::Opt(Some(b)) => uint_leaves(b, out),
        _ => {}
    }
}

#[derive(Clone, Debug, Hash, PartialEq, serde::Serialize)]
pub struct KeyPairCase {
    pub fn_id: u32,
    pub how: &'static str,
    pub recv1: Option<String>,
    pub recv2: Option<String>,
    pub t1: Vec<String>,
    pub t2: Vec<String>,
}

struct Pair {
    d: &'static FnDesc,
    how: &'static str,
    r1: Option<ArgVal>,
    r2: Option<ArgVal>,
    t1: Vec<ArgVal>,
    t2: Vec<ArgVal>,
}

fn key_fns() -> &'static Vec<u32> {
    use std::sync::OnceLock;
    static C: OnceLock<Vec<u32>> = OnceLock::new();
    C.get_or_init(|| static_corpus().funcs.iter().filter(|d| matches!(d.family, "key" | "meth" | "pat" | "names")).map(|d| d.id).collect())
}

/// clamp unsigned leaves back into their type after digit re-splitting
fn fits(args: &[ArgVal], tys: &[Ty]) -> bool {
    fn ok(v: &ArgVal, t: &Ty) -> bool {
        match (v, t) {
            (ArgVal::U(x), t) => {
                let (_, max, _) = int_bounds(t);
                *x <= max
            }
            (ArgVal::Tup(vs), Ty::Tup(ts)) => vs.iter().zip(ts.iter()).all(|(v, t)| ok(v, t)),
            (ArgVal::Tup(vs), Ty::UPoint) => ok(&vs[0], &Ty::U32) && ok(&vs[1], &Ty::U16),
            (ArgVal::Tup(vs), Ty::UWrap) => ok(&vs[0], &Ty::U8),
            (ArgVal::Seq(vs), Ty::Vec(t)) | (ArgVal::Seq(vs), Ty::Slice(t)) => vs.iter().all(|v| ok(v, t)),
            (ArgVal::Opt(Some(b)), Ty::Opt(t)) => ok(b, t),
            _ => true,
        }
    }
    args.iter().zip(tys.iter()).all(|(v, t)| ok(v, t))
}

fn decode(bytes: &[u8]) -> Pair {
    let mut d = Dec::new(bytes);
    let corpus = static_corpus();
    let fns = key_fns();
    let fd = corpus.by_id(fns[d.choose16(fns.len())]);
    let has_recv = fd.receiver != Receiver::None;
    let mut r1 = if has_recv { Some(gen_val(&Ty::UStruct, &mut d, 0)) } else { None };
    let mut t1: Vec<ArgVal> = fd.args.iter().map(|t| gen_val(t, &mut d, 0)).collect();
    let mut r2 = r1.clone();
    let mut t2 = t1.clone();
    let how_idx = d.weighted(&[3, 3, 4, 4, 2, 3, 2, 2, 2]);
    let mut how = ["copy", "independent", "shift_boundary", "inject", "swap", "resplit_digits", "receiver", "float_neighbour", "long_common_prefix"][how_idx];
    match how_idx {
        0 => {}
        1 => {
            if has_recv && d.chance(1, 2) {
                r2 = Some(gen_val(&Ty::UStruct, &mut d, 0));
            }
            t2 = fd.args.iter().map(|t| gen_val(t, &mut d, 0)).collect();
        }
        2 => {
            // move a suffix of one string leaf to the front of the next one (across argument,
            // tuple-field and element boundaries; the receiver's name is the first leaf)
            let mut whole = ArgVal::Tup(r2.iter().cloned().chain(t2.iter().cloned()).collect());
            {
                let mut leaves = Vec::new();
                string_leaves(&mut whole, &mut leaves);
                if leaves.len() >= 2 {
                    let i = d.choose(leaves.len() - 1);
                    let forward = d.chance(1, 2);
                    let (a, b) = (i, i + 1);
                    if forward {
                        let s = leaves[a].clone();
                        if let Some((idx, _)) = s.char_indices().last() {
                            let cut = if d.chance(1, 2) { idx } else { s.char_indices().nth(s.chars().count() / 2).map(|x| x.0).unwrap_or(idx) };
                            let (head, tail) = s.split_at(cut);
                            let nb = format!("{}{}", tail, leaves[b]);
                            *leaves[a] = head.to_string();
                            *leaves[b] = nb;
                        }
                    } else {
                        let s = leaves[b].clone();
                        if let Some(c) = s.chars().next() {
                            let cut = c.len_utf8();
                            let (head, tail) = s.split_at(cut);
                            let na = format!("{}{}", leaves[a], head);
                            *leaves[a] = na;
                            *leaves[b] = tail.to_string();
                        }
                    }
                } else {
                    how = "inject";
                    if let Some(l) = leaves.first_mut() {
                        l.push_str(TOKENS[1 + d.choose(TOKENS.len() - 1)]);
                    }
                }
            }
            let ArgVal::Tup(mut vs) = whole else { unreachable!() };
            if has_recv {
                r2 = Some(vs.remove(0));
            }
            t2 = vs;
        }
        3 => {
            let mut whole = ArgVal::Tup(r2.iter().cloned().chain(t2.iter().cloned()).collect());
            {
                let mut leaves = Vec::new();
                string_leaves(&mut whole, &mut leaves);
                if !leaves.is_empty() {
                    let i = d.choose(leaves.len());
                    let tok = TOKENS[1 + d.choose(TOKENS.len() - 1)];
                    if d.chance(1, 2) {
                        leaves[i].push_str(tok);
                    } else {
                        leaves[i].insert_str(0, tok);
                    }
                }
            }
            let ArgVal::Tup(mut vs) = whole else { unreachable!() };
            if has_recv {
                r2 = Some(vs.remove(0));
            }
            t2 = vs;
        }
        4 => {
            // swap two adjacent positions of equal type
            let n = t2.len();
            if n >= 2 {
                let start = d.choose(n - 1);
                for off in 0..n - 1 {
                    let i = (start + off) % (n - 1);
                    if fd.args[i] == fd.args[i + 1] {
                        t2.swap(i, i + 1);
                        break;
                    }
                }
            }
        }
        5 => {
            // (1, 23) vs (12, 3): re-split the decimal digits of two consecutive unsigned leaves
            let mut whole = ArgVal::Tup(t2.clone());
            {
                let mut leaves = Vec::new();
                uint_leaves(&mut whole, &mut leaves);
                if leaves.len() >= 2 {
                    let i = d.choose(leaves.len() - 1);
                    let digits = format!("{}{}", leaves[i], leaves[i + 1]);
                    if digits.len() >= 2 && digits.len() <= 30 {
                        let cut = 1 + d.choose(digits.len() - 1);
                        let (a, b) = digits.split_at(cut);
                        if !(b.len() > 1 && b.starts_with('0')) && !(a.len() > 1 && a.starts_with('0')) {
                            *leaves[i] = a.parse().unwrap_or(0);
                            *leaves[i + 1] = b.parse().unwrap_or(0);
                        }
                    }
                }
            }
            let ArgVal::Tup(vs) = whole else { unreachable!() };
            if fits(&vs, fd.args) {
                t2 = vs;
            }
        }
        7 => {
            // a float leaf replaced by a neighbouring value: next representable number, a
            // denormal next to zero, or a value differing only far behind the decimal point
            fn nudge(v: &mut ArgVal, d: &mut Dec, done: &mut bool) {
                match v {
                    ArgVal::F64(b) if !*done => {
                        let x = f64::from_bits(*b);
                        let y = match d.choose(4) {
                            0 => f64::from_bits(b.wrapping_add(1)),
                            1 => if x == 0.0 { f64::MIN_POSITIVE } else { x * (1.0 + f64::EPSILON) },
                            2 => x + 1e-17,
                            _ => if x == 0.0 { 5e-324 } else { f64::from_bits(b.wrapping_sub(1)) },
                        };
                        if !y.is_nan() {
                            *b = y.to_bits();
                            *done = true;
                        }
                    }
                    ArgVal::F32(b) if !*done => {
                        let x = f32::from_bits(*b);
                        let y = match d.choose(3) {
                            0 => f32::from_bits(b.wrapping_add(1)),
                            1 => if x == 0.0 { f32::MIN_POSITIVE } else { x * (1.0 + f32::EPSILON) },
                            _ => if x == 0.0 { 1e-45 } else { f32::from_bits(b.wrapping_sub(1)) },
                        };
                        if !y.is_nan() {
                            *b = y.to_bits();
                            *done = true;
                        }
                    }
                    ArgVal::Tup(vs) | ArgVal::Seq(vs) => {
                        for x in vs.iter_mut() {
                            nudge(x, d, done);
                        }
                    }
                    ArgVal::Opt(Some(bx)) => nudge(bx, d, done),
                    _ => {}
                }
            }
            let mut done = false;
            for a in t2.iter_mut() {
                nudge(a, &mut d, &mut done);
            }
            if !done {
                how = "independent";
                t2 = fd.args.iter().map(|t| gen_val(t, &mut d, 0)).collect();
            }
        }
        8 => {
            // two long values of equal length that agree on a long prefix and differ behind it
            let n = [40usize, 300, 1024, 4090, 4096, 5000, 9000][d.choose(7)];
            let tail_len = d.choose(4);
            let mut w1 = ArgVal::Tup(r1.iter().cloned().chain(t1.iter().cloned()).collect());
            let mut w2 = w1.clone();
            let mut ok = false;
            {
                let (mut l1, mut l2) = (Vec::new(), Vec::new());
                string_leaves(&mut w1, &mut l1);
                string_leaves(&mut w2, &mut l2);
                if !l1.is_empty() {
                    let i = d.choose(l1.len());
                    let mut base = String::with_capacity(n + 8);
                    for j in 0..n {
                        base.push((b'a' + (j % 23) as u8) as char);
                    }
                    let tail: String = "tail".chars().take(tail_len).collect();
                    *l1[i] = format!("{base}X{tail}");
                    *l2[i] = format!("{base}Y{tail}");
                    ok = true;
                }
            }
            if !ok {
                fn grow(v: &mut ArgVal, n: usize, done: &mut bool) {
                    match v {
                        ArgVal::Seq(vs) if !*done && !vs.is_empty() => {
                            let e = vs[0].clone();
                            while vs.len() < n {
                                vs.push(e.clone());
                            }
                            *done = true;
                        }
                        ArgVal::Tup(vs) => {
                            for x in vs.iter_mut() {
                                grow(x, n, done);
                            }
                        }
                        ArgVal::Opt(Some(b)) => grow(b, n, done),
                        _ => {}
                    }
                }
                // a long sequence: the second tuple drops the last element and doubles the first
                let mut done = false;
                grow(&mut w1, n / 4 + 2, &mut done);
                if done {
                    w2 = w1.clone();
                    fn last_differs(v: &mut ArgVal, done: &mut bool) {
                        match v {
                            ArgVal::Seq(vs) if !*done && vs.len() > 8 => {
                                vs.pop();
                                *done = true;
                            }
                            ArgVal::Tup(vs) => {
                                for x in vs.iter_mut() {
                                    last_differs(x, done);
                                }
                            }
                            ArgVal::Opt(Some(b)) => last_differs(b, done),
                            _ => {}
                        }
                    }
                    let mut d2 = false;
                    last_differs(&mut w2, &mut d2);
                    ok = d2;
                }
            }
            if ok {
                let ArgVal::Tup(mut v1) = w1 else { unreachable!() };
                let ArgVal::Tup(mut v2) = w2 else { unreachable!() };
                if has_recv {
                    r1 = Some(v1.remove(0));
                    r2 = Some(v2.remove(0));
                }
                t1 = v1;
                t2 = v2;
            } else {
                how = "independent";
                t2 = fd.args.iter().map(|t| gen_val(t, &mut d, 0)).collect();
            }
        }
        _ => {
            if let Some(ArgVal::UStruct(id, name)) = &mut r2 {
                if d.chance(1, 2) {
                    *id = id.wrapping_add(1 + d.choose(3) as u32);
                } else {
                    name.push_str(TOKENS[1 + d.choose(TOKENS.len() - 1)]);
                }
            } else {
                how = "independent";
                t2 = fd.args.iter().map(|t| gen_val(t, &mut d, 0)).collect();
            }
        }
    }
    Pair { d: fd, how, r1, r2, t1, t2 }
}

fn to_case(p: &Pair) -> KeyPairCase {
    // long renderings are abbreviated (head, length, hash, tail) in case descriptions
    let short = |s: String| -> String {
        if s.len() <= 240 {
            s
        } else {
            let cs: Vec<char> = s.chars().collect();
            format!("{}...[{} bytes, fnv {:x}]...{}", cs[..60].iter().collect::<String>(), s.len(), crate::infra::str_hash(&s), cs[cs.len() - 40..].iter().collect::<String>())
        }
    };
    let render = |args: &Vec<ArgVal>| -> Vec<String> {
        args.iter()
            .zip(p.d.args.iter())
            .map(|(a, t)| {
                let mut s = String::new();
                crate::keys::render(a, t, &mut s);
                short(s)
            })
            .collect()
    };
    let rr = |r: &Option<ArgVal>| {
        r.as_ref().map(|r| {
            let mut s = String::new();
            crate::keys::render(r, &Ty::UStruct, &mut s);
            s
        })
    };
    KeyPairCase { fn_id: p.d.id, how: p.how, recv1: rr(&p.r1), recv2: rr(&p.r2), t1: render(&p.t1), t2: render(&p.t2) }
}

pub fn describe(bytes: &[u8], _t: Tier) -> Value {
    let p = decode(bytes);
    let c = to_case(&p);
    json!({"function": p.d.fn_name, "macro": if p.d.flavour == Flavour::Async { "cache_async" } else { "cache" }, "signature": format!("{:?} {:?}", p.d.receiver, p.d.args), "how": c.how, "receiver1": c.recv1, "receiver2": c.recv2, "tuple1": c.t1, "tuple2": c.t2})
}

pub fn run_case(bytes: &[u8], _t: Tier) -> CaseOut {
    let b = bytes.to_vec();
    let h = std::thread::Builder::new().stack_size(2 << 20).spawn(move || run_in_thread(&b)).expect("spawn");
    match h.join() {
        Ok(o) => o,
        Err(_) => {
            eprintln!("INCONCLUSIVE: harness panic in C02 case thread");
            std::process::exit(2);
        }
    }
}

fn run_in_thread(bytes: &[u8]) -> CaseOut {
    let p = decode(bytes);
    let case = to_case(&p);
    let mut out = CaseOut { key: hash_of(&case), ..CaseOut::default() };
    let corpus = static_corpus();
    let d = p.d;
    if d.flavour != Flavour::Thread {
        let _ = cachelito_core::invalidate_with(d.cache_name, |_k: &str| true);
    }
    let sc = CallScript::default();
    let equal = p.r1 == p.r2 && p.t1 == p.t2;
    let sig = |clause: &str| format!("C02:{}:{}", if d.flavour == Flavour::Async { "async" } else { "sync" }, clause);
    let o1 = match do_call(&corpus, d, p.r1.as_ref(), &p.t1, &sc, 0) {
        Ok(o) => o,
        Err(_) => {
            out.aborted_foreign = true;
            return out;
        }
    };
    if o1.executed != 1 {
        out.aborted_foreign = true;
        out.classes.push("cache_not_empty_after_reset");
        return out;
    }
    let o2 = match do_call(&corpus, d, p.r2.as_ref(), &p.t2, &sc, 0) {
        Ok(o) => o,
        Err(_) => {
            out.aborted_foreign = true;
            return out;
        }
    };
    let exp2 = Ret::Str(twin_value(d, p.r2.as_ref(), &p.t2, 0));
    let k1 = key_of(d, p.r1.as_ref(), &p.t1);
    let k2 = key_of(d, p.r2.as_ref(), &p.t2);
    if !equal && o2.executed == 0 {
        out.violation = Some(Violation {
            signature: sig("collision"),
            clause: "collision".into(),
            step: 1,
            expected: format!("{}: second call with different arguments runs the body (keys as documented: {:?} vs {:?})", d.fn_name, k1, k2),
            observed: format!("served from the entry of the first call: {:?}", o2.ret),
        });
    } else if equal && o2.executed != 0 {
        out.violation = Some(Violation { signature: sig("equal-miss"), clause: "equal-miss".into(), step: 1, expected: format!("{}: second call with equal arguments is a hit (key {:?})", d.fn_name, k1), observed: "the body ran again".into() });
    } else if o2.ret != exp2 {
        out.violation = Some(Violation { signature: sig("value"), clause: "value".into(), step: 1, expected: format!("{:?}", exp2), observed: format!("{:?}", o2.ret) });
    } else if d.flavour != Flavour::Thread {
        if let Some(l) = list_keys(d.cache_name) {
            let n = if equal { 1 } else { 2 };
            if l.len() != n {
                out.violation = Some(Violation { signature: sig("entry-count"), clause: "entry-count".into(), step: 2, expected: format!("{} entries after the two calls", n), observed: format!("{:?}", l) });
            } else if !(l.contains(&k1) && l.contains(&k2)) {
                out.classes.push("diag_key_format_differs_from_harness_renderer");
            }
        }
    }
    // non-triviality: distinct and boundary-ambiguous
    let strip = |c: &KeyPairCase, one: bool| -> String {
        let parts = if one { c.recv1.iter().chain(c.t1.iter()).cloned().collect::<Vec<_>>() } else { c.recv2.iter().chain(c.t2.iter()).cloned().collect::<Vec<_>>() };
        parts.concat().replace(['|', '"', ',', ' ', '\\'], "")
    };
    let special = |c: &KeyPairCase| c.t1.iter().chain(c.t2.iter()).chain(c.recv1.iter()).chain(c.recv2.iter()).any(|s| s.contains('|') || s.contains("\\\"") || s.contains("\\\\") || s.contains(", "));
    let ambiguous = strip(&case, true) == strip(&case, false);
    out.nontrivial = !equal && (ambiguous || special(&case));
    out.classes.push(match p.how {
        "copy" => "how_copy",
        "independent" => "how_independent",
        "shift_boundary" => "how_shift_boundary",
        "inject" => "how_inject",
        "swap" => "how_swap",
        "resplit_digits" => "how_resplit_digits",
        "float_neighbour" => "how_float_neighbour",
        _ => "how_receiver",
    });
    if equal {
        out.classes.push("equal_pair");
    } else {
        out.classes.push("distinct_pair");
    }
    if ambiguous && !equal {
        out.classes.push("boundary_ambiguous");
    }
    out.classes.push(if d.flavour == Flavour::Async { "async_key_builder" } else { "sync_key_builder" });
    if d.receiver != Receiver::None {
        out.classes.push("method_with_receiver");
    }
    out
}
