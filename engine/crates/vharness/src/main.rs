fn main() {
    vharness::cli::main();
}
