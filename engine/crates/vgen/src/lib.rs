//! Source generator for decorated functions (engines E3 and E5).
//!
//! A `FnSpec` describes one function decorated with `#[cache]` / `#[cache_async]`: the
//! attribute list *as intended* (typed values) and the signature shape.  `emit_crate_source`
//! writes the functions, a static `FUNCS: &[vrt::FnDesc]` table built from the same specs,
//! and dispatchers `call` / `call_async` that convert generic `ArgVal`s into typed arguments.
//! The static macro corpus (`vcorpus`) is `static_corpus()` emitted once and checked in;
//! the C19 program tier emits randomly generated specs into scratch crates.

use std::fmt::Write;
use vrt::{Flavour, Policy, Receiver, RetKind};

#[derive(Clone, Debug, PartialEq)]
pub enum TyD {
    U8,
    U16,
    U32,
    U64,
    U128,
    Usize,
    I8,
    I16,
    I32,
    I64,
    I128,
    Isize,
    F32,
    F64,
    Bool,
    Char,
    String,
    StrRef,
    Tup(Vec<TyD>),
    Opt(Box<TyD>),
    Vec(Box<TyD>),
    Slice(Box<TyD>),
    UStruct,
    UEnum,
    UPoint,
    UWrap,
}

impl TyD {
    pub fn text(&self) -> String {
        match self {
            TyD::U8 => "u8".into(),
            TyD::U16 => "u16".into(),
            TyD::U32 => "u32".into(),
            TyD::U64 => "u64".into(),
            TyD::U128 => "u128".into(),
            TyD::Usize => "usize".into(),
            TyD::I8 => "i8".into(),
            TyD::I16 => "i16".into(),
            TyD::I32 => "i32".into(),
            TyD::I64 => "i64".into(),
            TyD::I128 => "i128".into(),
            TyD::Isize => "isize".into(),
            TyD::F32 => "f32".into(),
            TyD::F64 => "f64".into(),
            TyD::Bool => "bool".into(),
            TyD::Char => "char".into(),
            TyD::String => "String".into(),
            TyD::StrRef => "&str".into(),
            TyD::Tup(ts) => {
                let mut s = String::from("(");
                for t in ts {
                    s.push_str(&t.text());
                    s.push_str(", ");
                }
                s.push(')');
                s
            }
            TyD::Opt(t) => format!("Option<{}>", t.text()),
            TyD::Vec(t) => format!("Vec<{}>", t.text()),
            TyD::Slice(t) => format!("&[{}]", t.text()),
            TyD::UStruct => "UserS".into(),
            TyD::UEnum => "UserE".into(),
            TyD::UPoint => "UserP".into(),
            TyD::UWrap => "UserW".into(),
        }
    }

    /// `vrt::Ty` constant expression
    pub fn static_expr(&self) -> String {
        match self {
            TyD::Tup(ts) => format!("Ty::Tup(&[{}])", ts.iter().map(|t| t.static_expr()).collect::<Vec<_>>().join(", ")),
            TyD::Opt(t) => format!("Ty::Opt(&{})", t.static_expr()),
            TyD::Vec(t) => format!("Ty::Vec(&{})", t.static_expr()),
            TyD::Slice(t) => format!("Ty::Slice(&{})", t.static_expr()),
            TyD::UStruct => "Ty::UStruct".into(),
            TyD::UEnum => "Ty::UEnum".into(),
            TyD::UPoint => "Ty::UPoint".into(),
            TyD::UWrap => "Ty::UWrap".into(),
            other => format!("Ty::{:?}", other),
        }
    }

    /// Expression converting `&ArgVal` expression `e` to an owned value of this type
    /// (`StrRef` -> String, `Slice` -> Vec; borrowed at the call site).
    pub fn conv(&self, e: &str, depth: usize) -> String {
        match self {
            TyD::U8 | TyD::U16 | TyD::U32 | TyD::U64 | TyD::U128 | TyD::Usize => format!("(({e}).as_u() as {})", self.text()),
            TyD::I8 | TyD::I16 | TyD::I32 | TyD::I64 | TyD::I128 | TyD::Isize => format!("(({e}).as_i() as {})", self.text()),
            TyD::F32 => format!("({e}).as_f32()"),
            TyD::F64 => format!("({e}).as_f64()"),
            TyD::Bool => format!("({e}).as_bool()"),
            TyD::Char => format!("({e}).as_char()"),
            TyD::String | TyD::StrRef => format!("({e}).as_str().to_string()"),
            TyD::Tup(ts) => {
                let v = format!("__t{depth}");
                let mut s = format!("{{ let {v} = ({e}).as_tup(); (");
                for (i, t) in ts.iter().enumerate() {
                    s.push_str(&t.conv(&format!("&{v}[{i}]"), depth + 1));
                    s.push_str(", ");
                }
                s.push_str(") }");
                s
            }
            TyD::Opt(t) => {
                let v = format!("__o{depth}");
                format!("({e}).as_opt().map(|{v}| {})", t.conv(&v, depth + 1))
            }
            TyD::Vec(t) | TyD::Slice(t) => {
                let v = format!("__e{depth}");
                format!("({e}).as_seq().iter().map(|{v}| {}).collect::<Vec<_>>()", t.conv(&v, depth + 1))
            }
            TyD::UStruct => format!("{{ let (__i, __n) = ({e}).as_ustruct(); UserS {{ id: __i, name: __n.to_string() }} }}"),
            TyD::UPoint => format!("{{ let __p = ({e}).as_tup(); UserP {{ x: __p[0].as_u() as u32, y: __p[1].as_u() as u16 }} }}"),
            TyD::UWrap => format!("{{ let __p = ({e}).as_tup(); UserW(__p[0].as_u() as u8) }}"),
            TyD::UEnum => format!(
                "{{ let (__v, __x, __s) = ({e}).as_uenum(); match __v {{ 0 => UserE::A, 1 => UserE::B(__x as u8), _ => UserE::C {{ x: __x as i16, s: __s.to_string() }} }} }}"
            ),
        }
    }

    pub fn is_copy(&self) -> bool {
        match self {
            TyD::String | TyD::StrRef | TyD::Vec(_) | TyD::Slice(_) | TyD::UStruct | TyD::UEnum => false,
            TyD::Tup(ts) => ts.iter().all(|t| t.is_copy()),
            TyD::Opt(t) => t.is_copy(),
            _ => true,
        }
    }

    pub fn is_ref(&self) -> bool {
        matches!(self, TyD::StrRef | TyD::Slice(_))
    }
}

#[derive(Clone, Debug)]
pub struct FnSpec {
    pub id: u32,
    pub fn_name: String,
    pub family: String,
    pub flavour: Flavour,
    pub policy: Option<Policy>,
    pub limit: Option<usize>,
    pub ttl: Option<u64>,
    /// (attribute value as written, e.g. `"200"`, `"2KB"`, `4096`; bytes intended)
    pub max_memory: Option<(String, usize)>,
    /// (attribute value as written, e.g. `1.5`, `2`; value intended)
    pub frequency_weight: Option<(String, f64)>,
    pub name: Option<String>,
    pub tags: Vec<String>,
    pub events: Vec<String>,
    pub deps: Vec<String>,
    pub invalidate_on: bool,
    pub cache_if: bool,
    pub ret: RetKind,
    pub receiver: Receiver,
    pub args: Vec<TyD>,
    pub gates: u8,
    pub pad: u32,
    /// write `scope = "global"` explicitly (sync only)
    pub explicit_global_scope: bool,
    /// rotate the attribute list by this many positions (order must not matter)
    pub attr_rotation: usize,
    /// write destructuring patterns for parameters of Copy tuple / struct / tuple-struct type
    pub destructure: bool,
    /// define the function through a `macro_rules!` template whose return type and argument
    /// types arrive as `ty` fragments (the proc macro then sees them inside invisible groups)
    pub via_template: bool,
    /// parameter names (default a0, a1, ...)
    pub arg_names: Vec<String>,
    /// other decoration around the cache attribute: 0 none, 1 doc comment above, 2 `#[inline]`
    /// above, 3 `#[inline]` below, 4 doc comment between attribute and fn, 5 `#[allow(..)]`
    /// above and doc below, 6 `pub(crate)` visibility
    pub decor: u8,
    /// how the body produces its value: 0 tail expression, 1 `return expr;`, 2 guard clause that
    /// returns early on the path every call takes, 3 (Result only) `?` on the inner result and
    /// `return Ok(..)`
    pub body_style: u8,
}

impl FnSpec {
    pub fn new(id: u32, fn_name: &str, family: &str, flavour: Flavour) -> FnSpec {
        FnSpec {
            id,
            fn_name: fn_name.to_string(),
            family: family.to_string(),
            flavour,
            policy: None,
            limit: None,
            ttl: None,
            max_memory: None,
            frequency_weight: None,
            name: None,
            tags: vec![],
            events: vec![],
            deps: vec![],
            invalidate_on: false,
            cache_if: false,
            ret: RetKind::Plain,
            receiver: Receiver::None,
            args: vec![TyD::U32, TyD::String],
            gates: 0,
            pad: 0,
            explicit_global_scope: false,
            attr_rotation: 0,
            destructure: false,
            via_template: false,
            arg_names: Vec::new(),
            decor: 0,
            body_style: 0,
        }
    }

    pub fn cache_name(&self) -> String {
        self.name.clone().unwrap_or_else(|| self.fn_name.clone())
    }

    pub fn attr_items(&self) -> Vec<String> {
        let mut v = Vec::new();
        if let Some(l) = self.limit {
            v.push(format!("limit = {l}"));
        }
        if let Some(p) = self.policy {
            v.push(format!("policy = \"{}\"", p.name()));
        }
        if let Some(t) = self.ttl {
            v.push(format!("ttl = {t}"));
        }
        match self.flavour {
            Flavour::Thread => v.push("scope = \"thread\"".to_string()),
            Flavour::Global if self.explicit_global_scope => v.push("scope = \"global\"".to_string()),
            _ => {}
        }
        if let Some((txt, _)) = &self.max_memory {
            v.push(format!("max_memory = {txt}"));
        }
        if let Some((txt, _)) = &self.frequency_weight {
            v.push(format!("frequency_weight = {txt}"));
        }
        if let Some(n) = &self.name {
            v.push(format!("name = {:?}", n));
        }
        let list = |xs: &Vec<String>| xs.iter().map(|s| format!("{:?}", s)).collect::<Vec<_>>().join(", ");
        if !self.tags.is_empty() {
            v.push(format!("tags = [{}]", list(&self.tags)));
        }
        if !self.events.is_empty() {
            v.push(format!("events = [{}]", list(&self.events)));
        }
        if !self.deps.is_empty() {
            v.push(format!("dependencies = [{}]", list(&self.deps)));
        }
        let res = self.ret != RetKind::Plain;
        if self.invalidate_on {
            v.push(format!("invalidate_on = {}", if res { "vrt::inv_res" } else { "vrt::inv_str" }));
        }
        if self.cache_if {
            v.push(format!("cache_if = {}", if res { "vrt::cif_res" } else { "vrt::cif_str" }));
        }
        if !v.is_empty() {
            let r = self.attr_rotation % v.len();
            v.rotate_left(r);
        }
        v
    }

    pub fn attr_text(&self) -> String {
        self.attr_items().join(", ")
    }

    fn ret_text(&self) -> &'static str {
        match self.ret {
            RetKind::Plain => "String",
            RetKind::ResultShort => "Result<String, String>",
            RetKind::ResultStd => "std::result::Result<String, String>",
            RetKind::ResultPathArgs => "Result<String, std::string::String>",
            RetKind::ResultAlias => "Result<String>",
        }
    }

    pub fn emit_fn(&self, out: &mut String) {
        let is_async = self.flavour == Flavour::Async;
        let attrs = self.attr_text();
        let mac = if is_async { "cachelito_async::cache_async" } else { "cachelito::cache" };
        let mut params: Vec<String> = Vec::new();
        match self.receiver {
            Receiver::None => {}
            Receiver::Ref => params.push("&self".into()),
            Receiver::RefMut => params.push("&mut self".into()),
            Receiver::Value => params.push("self".into()),
        }
        let mut rebuild: Vec<String> = Vec::new();
        for (i, t) in self.args.iter().enumerate() {
            match t {
                TyD::UPoint if self.destructure => {
                    params.push(format!("UserP {{ x: a{i}_x, y: a{i}_y }}: UserP"));
                    rebuild.push(format!("let a{i} = UserP {{ x: a{i}_x, y: a{i}_y }};"));
                }
                TyD::UWrap if self.destructure => {
                    params.push(format!("UserW(a{i}_0): UserW"));
                    rebuild.push(format!("let a{i} = UserW(a{i}_0);"));
                }
                TyD::Tup(ts) if self.destructure && ts.iter().all(|t| t.is_copy()) => {
                    let names: Vec<String> = (0..ts.len()).map(|j| format!("a{i}_{j}")).collect();
                    let tup = format!("({}{})", names.join(", "), if names.len() == 1 { "," } else { "" });
                    params.push(format!("{tup}: {}", t.text()));
                    rebuild.push(format!("let a{i} = {tup};"));
                }
                _ if self.via_template => params.push(format!("{}: $t{i}", self.arg_name(i))),
                _ => params.push(format!("{}: {}", self.arg_name(i), t.text())),
            }
        }
        let mut parts: Vec<String> = Vec::new();
        if self.receiver != Receiver::None {
            parts.push("__recv as &dyn Enc".into());
        }
        for i in 0..self.args.len() {
            let n = if matches!(self.args[i], TyD::UPoint | TyD::UWrap | TyD::Tup(_)) && self.destructure { format!("a{i}") } else { self.arg_name(i) };
            parts.push(format!("&{n} as &dyn Enc"));
        }
        let indent = if self.receiver != Receiver::None { "    " } else { "" };
        if self.ret == RetKind::ResultAlias {
            let _ = writeln!(out, "pub mod al_{} {{\nuse super::*;\n#[allow(dead_code)]\npub type Result<T> = std::result::Result<T, String>;", self.fn_name);
        }
        if self.receiver != Receiver::None {
            out.push_str("impl UserS {\n");
        }
        if self.via_template {
            let tys: Vec<String> = (0..self.args.len()).map(|i| format!("$t{i}:ty")).collect();
            let _ = writeln!(out, "macro_rules! __tmpl_{} {{\n    ($ret:ty{}{}) => {{", self.fn_name, if tys.is_empty() { "" } else { ", " }, tys.join(", "));
        }
        match self.decor {
            1 => {
                let _ = writeln!(out, "{indent}/// Documented before the cache attribute.");
            }
            2 => {
                let _ = writeln!(out, "{indent}#[inline]");
            }
            5 => {
                let _ = writeln!(out, "{indent}#[allow(clippy::too_many_arguments, unused_variables)]");
            }
            _ => {}
        }
        if attrs.is_empty() {
            let _ = writeln!(out, "{indent}#[{mac}]");
        } else {
            let _ = writeln!(out, "{indent}#[{mac}({attrs})]");
        }
        match self.decor {
            3 => {
                let _ = writeln!(out, "{indent}#[inline]");
            }
            4 | 5 => {
                let _ = writeln!(out, "{indent}/// Documented between the cache attribute and the item.");
            }
            _ => {}
        }
        let _ = writeln!(
            out,
            "{indent}pub{} {}fn {}({}) -> {} {{",
            if self.decor == 6 && self.receiver == Receiver::None { "(crate)" } else { "" },
            if is_async { "async " } else { "" },
            self.fn_name,
            params.join(", "),
            if self.via_template { "$ret" } else { self.ret_text() }
        );
        if self.receiver != Receiver::None {
            let _ = writeln!(out, "{indent}    let __recv: &UserS = &self;");
        }
        for r in &rebuild {
            let _ = writeln!(out, "{indent}    {r}");
        }
        for g in 0..self.gates {
            let _ = writeln!(out, "{indent}    vrt::gate({g}).await;");
        }
        let body_fn = if self.ret == RetKind::Plain { "body_plain" } else { "body_result" };
        let call = format!("vrt::{body_fn}({}, {}, &[{}])", self.id, self.pad, parts.join(", "));
        let is_res = self.ret != RetKind::Plain;
        match (self.body_style, is_res) {
            // every variant keeps a typed tail expression, so the body also type-checks where an
            // expansion inlines the block instead of calling it as a closure
            (1, false) => {
                let _ = writeln!(out, "{indent}    if vrt::yes() {{\n{indent}        return {call};\n{indent}    }}\n{indent}    String::new()");
            }
            (1, true) => {
                let _ = writeln!(out, "{indent}    if vrt::yes() {{\n{indent}        return {call};\n{indent}    }}\n{indent}    Err(String::new())");
            }
            (2, false) => {
                let _ = writeln!(out, "{indent}    let __v = {call};\n{indent}    if !__v.is_empty() {{\n{indent}        return __v;\n{indent}    }}\n{indent}    String::new()");
            }
            (2, true) => {
                let _ = writeln!(out, "{indent}    let __v = {call};\n{indent}    if __v.is_ok() || __v.is_err() {{\n{indent}        return __v;\n{indent}    }}\n{indent}    Err(String::new())");
            }
            (3, true) => {
                let _ = writeln!(out, "{indent}    let __v = {call}?;\n{indent}    if vrt::yes() {{\n{indent}        return Ok(__v);\n{indent}    }}\n{indent}    Err(String::new())");
            }
            _ => {
                let _ = writeln!(out, "{indent}    {call}");
            }
        }
        let _ = writeln!(out, "{indent}}}");
        if self.via_template {
            let tys: Vec<String> = self.args.iter().map(|t| t.text()).collect();
            let _ = writeln!(out, "    }};\n}}\n__tmpl_{}!({}{}{});", self.fn_name, self.ret_text(), if tys.is_empty() { "" } else { ", " }, tys.join(", "));
        }
        if self.receiver != Receiver::None {
            out.push_str("}\n");
        }
        if self.ret == RetKind::ResultAlias {
            out.push_str("}\n");
        }
        out.push('\n');
    }

    pub fn arg_name(&self, i: usize) -> String {
        self.arg_names.get(i).cloned().unwrap_or_else(|| format!("a{i}"))
    }

    pub fn emit_desc(&self, out: &mut String) {
        let strs = |xs: &Vec<String>| format!("&[{}]", xs.iter().map(|s| format!("{:?}", s)).collect::<Vec<_>>().join(", "));
        let _ = writeln!(
            out,
            "    FnDesc {{ id: {}, fn_name: {:?}, cache_name: {:?}, has_name_attr: {}, family: {:?}, flavour: Flavour::{:?}, policy: {}, limit: {:?}, ttl: {:?}, max_memory: {:?}, frequency_weight: {}, tags: {}, events: {}, deps: {}, invalidate_on: {}, cache_if: {}, ret: RetKind::{:?}, receiver: Receiver::{:?}, args: &[{}], gates: {}, pad: {}, attr_text: {:?} }},",
            self.id,
            self.fn_name,
            self.cache_name(),
            self.name.is_some(),
            self.family,
            self.flavour,
            match self.policy {
                None => "None".to_string(),
                Some(p) => format!("Some(Policy::{:?})", p),
            },
            self.limit,
            self.ttl,
            self.max_memory.as_ref().map(|m| m.1),
            match &self.frequency_weight {
                None => "None".to_string(),
                Some((_, v)) => format!("Some({:?}f64)", v),
            },
            strs(&self.tags),
            strs(&self.events),
            strs(&self.deps),
            self.invalidate_on,
            self.cache_if,
            self.ret,
            self.receiver,
            self.args.iter().map(|t| t.static_expr()).collect::<Vec<_>>().join(", "),
            self.gates,
            self.pad,
            self.attr_text(),
        );
    }

    fn emit_call_arm(&self, out: &mut String) {
        let is_async = self.flavour == Flavour::Async;
        let _ = writeln!(out, "        {} => {{", self.id);
        let mut call_args = Vec::new();
        for (i, t) in self.args.iter().enumerate() {
            let _ = writeln!(out, "            let a{i} = {};", t.conv(&format!("&args[{i}]"), 0));
            call_args.push(match t {
                TyD::StrRef => format!("a{i}.as_str()"),
                TyD::Slice(inner) => {
                    let _ = inner;
                    format!("&a{i}[..]")
                }
                _ => format!("a{i}"),
            });
        }
        let callee = if self.receiver == Receiver::None {
            format!("{}{}({})", if self.ret == RetKind::ResultAlias { format!("al_{}::", self.fn_name) } else { String::new() }, self.fn_name, call_args.join(", "))
        } else {
            let _ = writeln!(out, "            #[allow(unused_mut)] let mut __r = {};", TyD::UStruct.conv("recv.expect(\"receiver\")", 0));
            format!("__r.{}({})", self.fn_name, call_args.join(", "))
        };
        let wrap = if self.ret == RetKind::Plain { "Ret::Str" } else { "Ret::Res" };
        if is_async {
            let _ = writeln!(out, "            {wrap}({callee}.await)");
        } else {
            let _ = writeln!(out, "            {wrap}({callee})");
        }
        let _ = writeln!(out, "        }}");
    }
}

pub const PRELUDE: &str = r#"// @generated by vgen -- do not edit
use vrt::{ArgVal, AsyncRet, Enc, Flavour, FnDesc, Policy, Receiver, Ret, RetKind, Ty};

#[derive(Debug, Clone, PartialEq)]
pub struct UserS {
    pub id: u32,
    pub name: String,
}

#[derive(Debug, Clone, PartialEq)]
pub enum UserE {
    A,
    B(u8),
    C { x: i16, s: String },
}

#[derive(Debug, Clone, Copy, PartialEq)]
pub struct UserP {
    pub x: u32,
    pub y: u16,
}

#[derive(Debug, Clone, Copy, PartialEq)]
pub struct UserW(pub u8);

impl cachelito_core::DefaultCacheableKey for UserP {}
impl cachelito_core::DefaultCacheableKey for UserW {}

impl Enc for UserP {
    fn enc(&self, out: &mut Vec<u8>) {
        out.push(b'P');
        self.x.enc(out);
        self.y.enc(out);
    }
}

impl Enc for UserW {
    fn enc(&self, out: &mut Vec<u8>) {
        out.push(b'W');
        self.0.enc(out);
    }
}

impl cachelito_core::DefaultCacheableKey for UserS {}
impl cachelito_core::DefaultCacheableKey for UserE {}

impl Enc for UserS {
    fn enc(&self, out: &mut Vec<u8>) {
        out.push(b'R');
        self.id.enc(out);
        self.name.enc(out);
    }
}

impl Enc for UserE {
    fn enc(&self, out: &mut Vec<u8>) {
        out.push(b'E');
        match self {
            UserE::A => out.push(0),
            UserE::B(b) => {
                out.push(1);
                b.enc(out);
            }
            UserE::C { x, s } => {
                out.push(2);
                x.enc(out);
                s.enc(out);
            }
        }
    }
}

"#;

pub fn emit_crate_source(specs: &[FnSpec]) -> String {
    let mut out = String::with_capacity(specs.len() * 600);
    out.push_str(PRELUDE);
    for s in specs {
        s.emit_fn(&mut out);
    }
    out.push_str("pub static FUNCS: &[FnDesc] = &[\n");
    for s in specs {
        s.emit_desc(&mut out);
    }
    out.push_str("];\n\n");
    out.push_str("pub fn call(id: u32, recv: Option<&ArgVal>, args: &[ArgVal]) -> Ret {\n    match id {\n");
    for s in specs.iter().filter(|s| s.flavour != Flavour::Async) {
        s.emit_call_arm(&mut out);
    }
    out.push_str("        _ => panic!(\"vcorpus::call: no sync function with id {}\", id),\n    }\n}\n\n");
    out.push_str("pub fn call_async<'a>(id: u32, recv: Option<&'a ArgVal>, args: &'a [ArgVal]) -> AsyncRet<'a> {\n    Box::pin(async move {\n    match id {\n");
    for s in specs.iter().filter(|s| s.flavour == Flavour::Async) {
        s.emit_call_arm(&mut out);
    }
    out.push_str("        _ => panic!(\"vcorpus::call_async: no async function with id {}\", id),\n    }\n    })\n}\n");
    out
}

// ---------------------------------------------------------------------------------------
// The static corpus (engine E3)
// ---------------------------------------------------------------------------------------

pub fn key_shapes() -> Vec<Vec<TyD>> {
    use TyD::*;
    let b = |t: TyD| Box::new(t);
    vec![
        vec![U8],
        vec![I64],
        vec![U128, I128],
        vec![Usize, Isize],
        vec![F32],
        vec![F64, F64],
        vec![Bool, Char],
        vec![String],
        vec![StrRef],
        vec![String, String],
        vec![StrRef, String],
        vec![U32, U32],
        vec![U32, String, U32],
        vec![Char, Char, Char],
        vec![Tup(vec![U8, String])],
        vec![Tup(vec![String, String]), String],
        vec![Opt(b(String))],
        vec![Opt(b(U32)), Opt(b(U32))],
        vec![Vec(b(U32))],
        vec![Vec(b(String))],
        vec![Vec(b(String)), Vec(b(String))],
        vec![Slice(b(U8))],
        vec![Slice(b(String)), U8],
        vec![Vec(b(Tup(vec![U8, String])))],
        vec![Opt(b(Vec(b(String))))],
        vec![Tup(vec![Opt(b(String)), Vec(b(Char))]), Bool],
        vec![UStruct],
        vec![UEnum, String],
        vec![Vec(b(UEnum))],
        vec![I8, I16, I32, U16, U64],
        vec![String, String, String, String, String],
        vec![Tup(vec![String]), Tup(vec![Char, String, F32])],
    ]
}

pub fn static_corpus() -> Vec<FnSpec> {
    let mut v: Vec<FnSpec> = Vec::new();
    let mut next_id = 0u32;
    let mut id = || {
        next_id += 1;
        next_id
    };
    let fl_tag = |f: Flavour| match f {
        Flavour::Global => "g",
        Flavour::Thread => "t",
        Flavour::Async => "a",
    };
    let flavours = [Flavour::Global, Flavour::Thread, Flavour::Async];

    // grid: flavour x policy x limit x ttl x max_memory
    for &fl in &flavours {
        for &p in &Policy::ALL {
            for &limit in &[None, Some(1usize), Some(2), Some(3)] {
                for &ttl in &[None, Some(1u64), Some(2)] {
                    for &mem in &[None, Some(200usize)] {
                        let i = id();
                        let mut s = FnSpec::new(i, &format!("grid_{}_{:04}", fl_tag(fl), i), "grid", fl);
                        s.policy = Some(p);
                        s.limit = limit;
                        s.ttl = ttl;
                        s.max_memory = mem.map(|m| (format!("\"{m}\""), m));
                        s.pad = if mem.is_some() { 1 } else { 0 };
                        s.attr_rotation = i as usize;
                        v.push(s);
                    }
                }
            }
        }
    }
    // TLRU with frequency weights
    for &fl in &flavours {
        for (wtxt, w) in [("0.1", 0.1f64), ("0.3", 0.3), ("1.0", 1.0), ("1.5", 1.5), ("3", 3.0)] {
            for &limit in &[2usize, 3] {
                for &ttl in &[None, Some(3u64), Some(5)] {
                    let i = id();
                    let mut s = FnSpec::new(i, &format!("tlru_{}_{:04}", fl_tag(fl), i), "tlru", fl);
                    s.policy = Some(Policy::Tlru);
                    s.limit = Some(limit);
                    s.ttl = ttl;
                    s.frequency_weight = Some((wtxt.to_string(), w));
                    v.push(s);
                }
            }
        }
    }
    // key shapes: sync global + async, unbounded
    for (k, shape) in key_shapes().into_iter().enumerate() {
        for &fl in &[Flavour::Global, Flavour::Async] {
            let i = id();
            let mut s = FnSpec::new(i, &format!("key_{}_{:02}_{:04}", fl_tag(fl), k, i), "key", fl);
            s.args = shape.clone();
            s.decor = (k % 7) as u8;
            v.push(s);
        }
    }
    // methods (receiver is part of the key)
    for &fl in &[Flavour::Global, Flavour::Thread, Flavour::Async] {
        for &rc in &[Receiver::Ref, Receiver::RefMut, Receiver::Value] {
            for args in [vec![], vec![TyD::U32], vec![TyD::String, TyD::U8], vec![TyD::U32, TyD::U16]] {
                let i = id();
                let mut s = FnSpec::new(i, &format!("meth_{}_{:04}", fl_tag(fl), i), "meth", fl);
                s.receiver = rc;
                s.args = args;
                v.push(s);
            }
        }
    }
    // Result spellings
    for &fl in &flavours {
        for &rk in &[RetKind::ResultShort, RetKind::ResultStd, RetKind::ResultPathArgs] {
            for &p in &[Policy::Fifo, Policy::Lru, Policy::Lfu] {
                for &(limit, mem) in &[(None, None), (Some(2usize), None), (None, Some(200usize)), (Some(2), Some(200))] {
                    let i = id();
                    let mut s = FnSpec::new(i, &format!("res_{}_{:04}", fl_tag(fl), i), "res", fl);
                    s.ret = rk;
                    s.policy = Some(p);
                    s.limit = limit;
                    s.max_memory = mem.map(|m: usize| (format!("\"{m}\""), m));
                    s.pad = if mem.is_some() { 1 } else { 0 };
                    v.push(s);
                }
            }
        }
    }
    // cache_if
    for &fl in &flavours {
        for &rk in &[RetKind::Plain, RetKind::ResultShort] {
            for &p in &[Policy::Fifo, Policy::Lru] {
                for &(limit, mem) in &[(None, None), (Some(2usize), None), (None, Some(200usize))] {
                    let i = id();
                    let mut s = FnSpec::new(i, &format!("cif_{}_{:04}", fl_tag(fl), i), "cif", fl);
                    s.ret = rk;
                    s.policy = Some(p);
                    s.limit = limit;
                    s.max_memory = mem.map(|m: usize| (format!("\"{m}\""), m));
                    s.pad = if mem.is_some() { 1 } else { 0 };
                    s.cache_if = true;
                    v.push(s);
                }
            }
        }
    }
    // invalidate_on (unbounded), with and without cache_if
    for &fl in &flavours {
        for &rk in &[RetKind::Plain, RetKind::ResultShort] {
            for &cif in &[false, true] {
                let i = id();
                let mut s = FnSpec::new(i, &format!("inv_{}_{:04}", fl_tag(fl), i), "inv", fl);
                s.ret = rk;
                s.invalidate_on = true;
                s.cache_if = cif;
                v.push(s);
            }
        }
    }
    // thread scope combined with invalidation metadata (the scope must still be honoured)
    for (k, &p) in [Policy::Fifo, Policy::Lru, Policy::Lfu, Policy::Random].iter().enumerate() {
        for &limit in &[None, Some(2usize)] {
            let i = id();
            let mut s = FnSpec::new(i, &format!("thrtag_t_{:04}", i), "thrtag", Flavour::Thread);
            s.policy = Some(p);
            s.limit = limit;
            match (k + limit.unwrap_or(0)) % 3 {
                0 => s.tags = vec!["tt".into()],
                1 => s.events = vec!["te".into()],
                _ => s.deps = vec!["td".into()],
            }
            if k == 3 {
                s.name = Some(format!("thrtag_named_{}", i));
            }
            v.push(s);
        }
    }
    // invalidate_on combined with ttl / limit (a refreshed entry starts a new lifetime)
    for &fl in &flavours {
        for &(ttl, limit) in &[(Some(3u64), None), (Some(2), Some(2usize)), (None, Some(2))] {
            let i = id();
            let mut s = FnSpec::new(i, &format!("inv_{}_{:04}", fl_tag(fl), i), "inv", fl);
            s.invalidate_on = true;
            s.ttl = ttl;
            s.limit = limit;
            s.policy = Some(Policy::Lru);
            v.push(s);
        }
        // invalidate_on combined with max_memory: a refresh whose fresh value cannot be cached
        // (larger than max_memory) must still get rid of the stale entry
        for &p in &[Policy::Lru, Policy::Fifo] {
            let i = id();
            let mut s = FnSpec::new(i, &format!("inv_{}_{:04}", fl_tag(fl), i), "inv", fl);
            s.invalidate_on = true;
            s.max_memory = Some(("\"200\"".into(), 200));
            s.pad = 1;
            s.policy = Some(p);
            v.push(s);
        }
    }
    // registry family: overlapping metadata over a pool of 6 strings
    {
        let pool = ["s0", "s1", "s2", "s3", "s4", "s5"];
        let mut x: u64 = 0x9E3779B97F4A7C15;
        let mut rnd = |n: u64| {
            x ^= x << 13;
            x ^= x >> 7;
            x ^= x << 17;
            x % n
        };
        for k in 0..36u32 {
            let fl = if k % 2 == 0 { Flavour::Global } else { Flavour::Async };
            let i = id();
            let mut s = FnSpec::new(i, &format!("reg_{}_{:04}", fl_tag(fl), i), "reg", fl);
            let mut pick = |max: u64| -> Vec<String> {
                let n = rnd(max + 1);
                let mut out: Vec<String> = Vec::new();
                for _ in 0..n {
                    let c = pool[rnd(6) as usize].to_string();
                    if !out.contains(&c) {
                        out.push(c);
                    }
                }
                out
            };
            if k % 9 != 8 {
                s.tags = pick(2);
                s.events = pick(2);
                s.deps = pick(2);
            }
            if k % 4 == 3 {
                // a custom name that is also used as a tag/event/dependency string elsewhere
                s.name = Some(format!("n{}_{}", k, pool[(k % 6) as usize]));
            }
            if k % 6 == 5 {
                s.limit = Some(3);
                s.policy = Some(Policy::Lru);
            }
            v.push(s);
        }
        // functions that use a cache *name* of another function as tag / event / dependency
        for k in 0..6u32 {
            let fl = if k % 2 == 0 { Flavour::Global } else { Flavour::Async };
            let i = id();
            let mut s = FnSpec::new(i, &format!("regx_{}_{:04}", fl_tag(fl), i), "reg", fl);
            match k % 3 {
                0 => s.tags = vec!["s1".into(), format!("regx_shared")],
                1 => s.events = vec!["regx_shared".into(), "s2".into()],
                _ => s.deps = vec!["regx_shared".into()],
            }
            if k == 5 {
                s.name = Some("regx_shared".into());
            }
            v.push(s);
        }
    }
    // concurrency family: global + async x policy, limit 2, ttl / memory variants, tagged
    for &fl in &[Flavour::Global, Flavour::Async] {
        for &p in &Policy::ALL {
            for &(ttl, mem) in &[(None, None), (Some(2u64), None), (None, Some(200usize))] {
                let i = id();
                let mut s = FnSpec::new(i, &format!("conc_{}_{:04}", fl_tag(fl), i), "conc", fl);
                s.policy = Some(p);
                s.limit = Some(2);
                s.ttl = ttl;
                s.max_memory = mem.map(|m: usize| (format!("\"{m}\""), m));
                s.pad = if mem.is_some() { 1 } else { 0 };
                s.tags = vec!["conc".into(), format!("ct{}", i % 3)];
                s.events = vec![format!("ce{}", i % 2)];
                s.deps = vec!["cdep".into()];
                v.push(s);
            }
        }
    }
    // unbounded concurrent functions (C03 / C15)
    for &fl in &[Flavour::Global, Flavour::Async] {
        for k in 0..3 {
            let i = id();
            let mut s = FnSpec::new(i, &format!("concu_{}_{:04}", fl_tag(fl), i), "concu", fl);
            s.tags = vec!["concu".into()];
            if k == 1 {
                s.name = Some(format!("concu_named_{}", i));
            }
            if k == 2 {
                s.policy = Some(Policy::Lru);
            }
            v.push(s);
        }
    }
    // gated async bodies (C20)
    for &p in &Policy::ALL {
        for (k, &(limit, ttl)) in [(None, None), (Some(2usize), None), (Some(2), Some(2u64)), (Some(1), None)].iter().enumerate() {
            let i = id();
            let mut s = FnSpec::new(i, &format!("gate_a_{:04}", i), "gate", Flavour::Async);
            s.policy = Some(p);
            s.limit = limit;
            s.ttl = ttl;
            s.gates = 1 + ((k as u32 + i) % 3) as u8;
            s.tags = vec!["gate".into()];
            v.push(s);
        }
    }
    // gated async bodies behind an invalidate_on check (a refresh that suspends or is dropped)
    for &p in &[Policy::Fifo, Policy::Lru, Policy::Lfu] {
        for (k, &limit) in [None, Some(2usize)].iter().enumerate() {
            let i = id();
            let mut s = FnSpec::new(i, &format!("gate_a_inv_{:04}", i), "gate", Flavour::Async);
            s.policy = Some(p);
            s.limit = limit;
            s.gates = 1 + ((k as u32 + i) % 2) as u8;
            s.tags = vec!["gate".into()];
            s.invalidate_on = true;
            v.push(s);
        }
    }
    // destructuring parameter patterns over Copy types (the pattern is also a valid key expression)
    {
        use TyD::*;
        let shapes: std::vec::Vec<std::vec::Vec<TyD>> = vec![
            vec![UPoint],
            vec![UWrap, U8],
            vec![Tup(vec![U32, U16])],
            vec![UPoint, UPoint],
            vec![Tup(vec![U8, Char]), UWrap],
            vec![U32, UPoint, Tup(vec![Bool, U8])],
        ];
        for (k, shape) in shapes.into_iter().enumerate() {
            for &fl in &flavours {
                for &destructure in &[true, false] {
                    let i = id();
                    let mut s = FnSpec::new(i, &format!("pat_{}_{:02}_{:04}", fl_tag(fl), k, i), "pat", fl);
                    s.args = shape.clone();
                    s.destructure = destructure;
                    v.push(s);
                }
            }
        }
    }
    // functions defined through macro_rules! templates (return and argument types as `ty` fragments)
    for &fl in &flavours {
        for &ret in &[RetKind::Plain, RetKind::ResultShort, RetKind::ResultStd] {
            for k in 0..2 {
                let i = id();
                let mut s = FnSpec::new(i, &format!("tmpl_{}_{:04}", fl_tag(fl), i), "tmpl", fl);
                s.ret = ret;
                s.via_template = true;
                if k == 1 {
                    s.limit = Some(2);
                    s.policy = Some(Policy::Lru);
                    s.max_memory = Some(("\"4KB\"".to_string(), 4096));
                }
                v.push(s);
            }
        }
    }
    // bodies that leave through `return`, a guard clause or `?` (the expansion must still store)
    for &fl in &flavours {
        for style in 1..=3u8 {
            for &ret in &[RetKind::Plain, RetKind::ResultShort] {
                if style == 3 && ret == RetKind::Plain {
                    continue;
                }
                let i = id();
                let mut s = FnSpec::new(i, &format!("ret_{}_{}_{:04}", fl_tag(fl), style, i), "ret", fl);
                s.ret = ret;
                s.body_style = style;
                v.push(s);
            }
        }
    }
    // tagged caches bounded by max_memory only (no entry limit), order-sensitive policies
    for &fl in &[Flavour::Global, Flavour::Async] {
        for &p in &[Policy::Fifo, Policy::Lru, Policy::Arc] {
            let i = id();
            let mut s = FnSpec::new(i, &format!("memtag_{}_{:04}", fl_tag(fl), i), "memtag", fl);
            s.policy = Some(p);
            s.max_memory = Some(("\"200\"".to_string(), 200));
            s.pad = 1;
            s.tags = vec!["memtag".into()];
            v.push(s);
        }
    }
    // registry labels on functions that do not always store (Result, cache_if)
    for (k, &fl) in [Flavour::Global, Flavour::Async, Flavour::Global, Flavour::Async].iter().enumerate() {
        for j in 0..2 {
            let i = id();
            let mut s = FnSpec::new(i, &format!("regr_{}_{:04}", fl_tag(fl), i), "regr", fl);
            if j == 0 {
                s.ret = RetKind::ResultShort;
            } else {
                s.cache_if = true;
            }
            s.tags = vec![format!("s{}", (k + j) % 6)];
            if k >= 2 {
                s.events = vec![format!("s{}", (k + 3) % 6)];
            }
            v.push(s);
        }
    }
    // Result through a one-parameter alias named `Result` (free functions only)
    for &fl in &flavours {
        for k in 0..2 {
            let i = id();
            let mut s = FnSpec::new(i, &format!("res_alias_{}_{:04}", fl_tag(fl), i), "res", fl);
            s.ret = RetKind::ResultAlias;
            if k == 1 {
                s.limit = Some(2);
                s.policy = Some(Policy::Lru);
            }
            v.push(s);
        }
    }
    // names that are odd as strings: everything keyed by name must use them verbatim
    for (k, nm) in ["r#type", "r#", "#x", "a|b", " lead", "trail ", "UPPER_lower", "\u{fc}n\u{ef}", "q\"uote", "::", "_", "1", "tab\there", "a/very/long/name/that/goes/on/and/on/and/on/and/on/and/on/and/on/and/on/and/on/for/quite/a/while/0123456789"].iter().enumerate() {
        for &fl in &[Flavour::Global, Flavour::Async] {
            let i = id();
            let mut s = FnSpec::new(i, &format!("oddname_{}_{:02}_{:04}", fl_tag(fl), k, i), "oddname", fl);
            s.name = Some(format!("{}{}", nm, if fl == Flavour::Async { "~a" } else { "" }));
            s.tags = vec![format!("odd{}", k % 3)];
            if k % 2 == 0 {
                s.limit = Some(3);
            }
            v.push(s);
        }
    }
    // parameters with everyday names (an identifier the expansion introduces must never capture one)
    {
        let sets: [&[&str]; 10] = [
            &["buf"],
            &["key", "value"],
            &["result", "cache"],
            &["order", "map", "entry"],
            &["data", "len"],
            &["k", "v"],
            &["stats", "ttl"],
            &["id", "name"],
            &["ret", "val", "tmp"],
            &["s", "out", "this"],
        ];
        for (k, names) in sets.iter().enumerate() {
            for &fl in &flavours {
                for &rc in &[Receiver::None, Receiver::Ref] {
                    let i = id();
                    let mut s = FnSpec::new(i, &format!("names_{}_{:02}_{:04}", fl_tag(fl), k, i), "names", fl);
                    s.receiver = rc;
                    s.args = names.iter().enumerate().map(|(j, _)| [TyD::String, TyD::U32, TyD::StrRef, TyD::Slice(Box::new(TyD::U8))][(k + j) % 4].clone()).collect();
                    s.arg_names = names.iter().map(|n| n.to_string()).collect();
                    v.push(s);
                }
            }
        }
    }
    // dependency graphs between named caches: a mutual pair, a chain, a self-dependency
    for (g, &fl) in [Flavour::Global, Flavour::Async].iter().enumerate() {
        let nm = |k: usize| format!("dg{}_{}", g, k);
        let layout: [(usize, Vec<usize>, bool); 6] = [(0, vec![1], false), (1, vec![0], false), (2, vec![3], false), (3, vec![4], false), (4, vec![], true), (5, vec![5, 0], false)];
        for (k, deps, tagged) in layout.iter() {
            let i = id();
            let mut s = FnSpec::new(i, &format!("depg_{}_{}_{:04}", fl_tag(fl), k, i), "depg", fl);
            s.name = Some(nm(*k));
            s.deps = deps.iter().map(|d| nm(*d)).collect();
            if *tagged {
                s.tags = vec!["dgt".to_string()];
            }
            v.push(s);
        }
    }
    // larger caches: bulk fills and sweeps (thresholds inside the library show only at scale)
    for &fl in &flavours {
        for &p in &[Policy::Fifo, Policy::Lru, Policy::Lfu] {
            for &limit in &[40usize, 100] {
                let i = id();
                let mut s = FnSpec::new(i, &format!("bulk_{}_{:04}", fl_tag(fl), i), "bulk", fl);
                s.policy = Some(p);
                s.limit = Some(limit);
                if fl != Flavour::Thread {
                    s.tags = vec!["bulk".into()];
                }
                v.push(s);
            }
        }
    }
    // legal extreme attribute values
    for &fl in &flavours {
        for &p in &[Policy::Fifo, Policy::Lru, Policy::Tlru] {
            for (k, (ttl, limit)) in [(Some(u64::MAX), None), (Some(1u64 << 63), Some(2usize)), (Some(u64::MAX), Some(usize::MAX)), (None, Some(usize::MAX))].into_iter().enumerate() {
                let i = id();
                let mut s = FnSpec::new(i, &format!("edge_{}_{}_{:04}", fl_tag(fl), k, i), "edge", fl);
                s.policy = Some(p);
                s.ttl = ttl;
                s.limit = limit;
                v.push(s);
            }
        }
        for (k, (wtxt, w)) in [("2000.0", 2000.0f64), ("1.7976931348623157e308", f64::MAX), ("1e-300", 1e-300)].into_iter().enumerate() {
            let i = id();
            let mut s = FnSpec::new(i, &format!("edge_{}_w{}_{:04}", fl_tag(fl), k, i), "edge", fl);
            s.policy = Some(Policy::Tlru);
            s.limit = Some(2);
            s.frequency_weight = Some((wtxt.to_string(), w));
            v.push(s);
        }
        for (k, (mtxt, m)) in [("18446744073709551615", usize::MAX), ("\"17179869183GB\"", 17179869183usize << 30)].into_iter().enumerate() {
            let i = id();
            let mut s = FnSpec::new(i, &format!("edge_{}_m{}_{:04}", fl_tag(fl), k, i), "edge", fl);
            s.policy = Some(Policy::Lru);
            s.limit = Some(2);
            s.max_memory = Some((mtxt.to_string(), m));
            v.push(s);
        }
    }
    v
}

// ---------------------------------------------------------------------------------------
// Random program corpora (engine E5)
// ---------------------------------------------------------------------------------------

pub struct Rng(pub u64);
impl Rng {
    pub fn next(&mut self) -> u64 {
        self.0 = self.0.wrapping_add(0x9E3779B97F4A7C15);
        let mut z = self.0;
        z = (z ^ (z >> 30)).wrapping_mul(0xBF58476D1CE4E5B9);
        z = (z ^ (z >> 27)).wrapping_mul(0x94D049BB133111EB);
        z ^ (z >> 31)
    }
    pub fn below(&mut self, n: u64) -> u64 {
        self.next() % n.max(1)
    }
    pub fn chance(&mut self, num: u64, den: u64) -> bool {
        self.below(den) < num
    }
}

fn random_ty(r: &mut Rng, depth: usize, top: bool) -> TyD {
    use TyD::*;
    let leaf = |r: &mut Rng| match r.below(16) {
        0 => U8,
        1 => U32,
        2 => U64,
        3 => I16,
        4 => I64,
        5 => Usize,
        6 => Bool,
        7 => Char,
        8 | 9 => String,
        10 => F64,
        11 => UStruct,
        12 => UEnum,
        13 => UPoint,
        14 => UWrap,
        _ => I32,
    };
    if depth >= 2 {
        return leaf(r);
    }
    match r.below(12) {
        0 if top => StrRef,
        1 if top => Slice(Box::new(leaf(r))),
        2 => Opt(Box::new(random_ty(r, depth + 1, false))),
        3 => Vec(Box::new(random_ty(r, depth + 1, false))),
        4 => {
            let n = 1 + r.below(3) as usize;
            Tup((0..n).map(|_| random_ty(r, depth + 1, false)).collect())
        }
        _ => leaf(r),
    }
}

/// A random decorated function: attribute presence / values x signature shape.
pub fn random_spec(r: &mut Rng, id: u32, registry_mode: bool) -> FnSpec {
    let flavour = if registry_mode { [Flavour::Global, Flavour::Async][r.below(2) as usize] } else { [Flavour::Global, Flavour::Thread, Flavour::Async][r.below(3) as usize] };
    let fl = match flavour {
        Flavour::Global => "g",
        Flavour::Thread => "t",
        Flavour::Async => "a",
    };
    let mut s = FnSpec::new(id, &format!("p19_{}_{:04}", fl, id), "prog", flavour);
    if !r.chance(1, 7) {
        s.policy = Some(Policy::ALL[r.below(6) as usize]);
    }
    s.limit = match r.below(7) {
        0 | 1 => None,
        2 => Some(1),
        3 => Some(2),
        4 => Some(3),
        5 => Some(4),
        _ => Some(10),
    };
    s.ttl = match r.below(6) {
        0 => Some(1),
        1 => Some(2),
        2 => Some(3),
        _ => None,
    };
    if !registry_mode {
        match r.below(16) {
            0 | 1 => {
                s.max_memory = Some(("\"200\"".into(), 200));
                s.pad = 1;
            }
            2 => {
                s.max_memory = Some(("300".into(), 300));
                s.pad = 1;
            }
            3 => {
                // 1 KB = 1024: a value of 1014 bytes fits only if KB is a power of 1024
                s.max_memory = Some((["\"1KB\"", "\"1kb\"", "\"1Kb\""][r.below(3) as usize].into(), 1024));
                s.pad = 990;
            }
            4 => {
                // two values of 1014 bytes fit in 2048 but not in 2000
                s.max_memory = Some(("\"2KB\"".into(), 2048));
                s.pad = 990;
            }
            5 if r.chance(1, 3) => {
                // 1 MB = 1048576: a value of 1040024 bytes fits only if MB = 1024 * 1024
                s.max_memory = Some((["\"1MB\"", "\"1mb\""][r.below(2) as usize].into(), 1024 * 1024));
                s.pad = 1_040_000;
            }
            _ => {}
        }
    }
    if s.policy == Some(Policy::Tlru) && r.chance(2, 3) {
        let (t, v) = [("0.1", 0.1), ("0.3", 0.3), ("1.0", 1.0), ("1.5", 1.5), ("3", 3.0), ("2.0", 2.0)][r.below(6) as usize];
        s.frequency_weight = Some((t.to_string(), v));
    }
    if r.chance(1, 4) {
        // names are arbitrary strings: plain ones and ones that are odd as strings (kept unique by the id)
        let odd = ["n19_", "r#n", "r#", "#", "a|b ", " lead", "\u{fc}n\u{ef}", "q\"uote", "::", "_", "1", "UPPER_"];
        s.name = Some(format!("{}{}", odd[if r.chance(1, 2) { 0 } else { r.below(odd.len() as u64) as usize }], id));
    }
    let pool = ["q0", "q1", "q2", "q3", "q4", "q5"];
    let mut pick = |r: &mut Rng, p: u64| -> Vec<String> {
        let mut out: Vec<String> = Vec::new();
        if r.chance(p, 10) {
            for _ in 0..(1 + r.below(2)) {
                let c = pool[r.below(6) as usize].to_string();
                if !out.contains(&c) {
                    out.push(c);
                }
            }
        }
        out
    };
    let p = if registry_mode { 6 } else { 2 };
    s.tags = pick(r, p);
    s.events = pick(r, p);
    s.deps = pick(r, p);
    if !registry_mode {
        s.invalidate_on = r.chance(1, 6);
        s.cache_if = r.chance(1, 6);
        s.ret = match r.below(6) {
            0 => RetKind::ResultShort,
            1 => RetKind::ResultStd,
            2 => RetKind::ResultPathArgs,
            3 if s.receiver == Receiver::None => RetKind::ResultAlias,
            _ => RetKind::Plain,
        };
        s.receiver = match r.below(9) {
            0 => Receiver::Ref,
            1 => Receiver::RefMut,
            2 => Receiver::Value,
            _ => Receiver::None,
        };
        let n_args = r.below(5) as usize;
        s.args = (0..n_args).map(|_| random_ty(r, 0, true)).collect();
        if s.receiver == Receiver::None && s.args.is_empty() && r.chance(1, 2) {
            s.args = vec![TyD::U32];
        }
    }
    s.explicit_global_scope = flavour == Flavour::Global && r.chance(1, 4);
    s.attr_rotation = r.below(8) as usize;
    s.destructure = r.chance(1, 3);
    s.decor = if r.chance(1, 2) { r.below(7) as u8 } else { 0 };
    s.body_style = if r.chance(1, 3) { 1 + r.below(3) as u8 } else { 0 };
    s
}

pub fn random_corpus(seed: u64, n: usize, registry_mode: bool) -> Vec<FnSpec> {
    let mut r = Rng(seed ^ 0xC19C19);
    (0..n).map(|i| random_spec(&mut r, i as u32 + 1, registry_mode)).collect()
}
