fn main() {
    let args: Vec<String> = std::env::args().collect();
    match args.get(1).map(|s| s.as_str()) {
        Some("static") => {
            let path = args.get(2).expect("usage: vgen static <out.rs>");
            let specs = vgen::static_corpus();
            std::fs::write(path, vgen::emit_crate_source(&specs)).expect("write");
            eprintln!("vgen: wrote {} functions to {}", specs.len(), path);
        }
        Some("random") => {
            let seed: u64 = args.get(2).and_then(|s| s.parse().ok()).expect("usage: vgen random <seed> <n> <out.rs> [registry]");
            let n: usize = args.get(3).and_then(|s| s.parse().ok()).expect("n");
            let path = args.get(4).expect("out");
            let specs = vgen::random_corpus(seed, n, args.get(5).map(|s| s == "registry").unwrap_or(false));
            std::fs::write(path, vgen::emit_crate_source(&specs)).expect("write");
        }
        _ => {
            eprintln!("usage: vgen static <out.rs> | random <seed> <n> <out.rs> [registry]");
            std::process::exit(2);
        }
    }
}
