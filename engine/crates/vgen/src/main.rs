fn main() {
    let args: Vec<String> = std::env::args().collect();
    match args.get(1).map(|s| s.as_str()) {
        Some("static") => {
            let path = args.get(2).expect("usage: vgen static <out.rs>");
            let specs = vgen::static_corpus();
            std::fs::write(path, vgen::emit_crate_source(&specs)).expect("write");
            eprintln!("vgen: wrote {} functions to {}", specs.len(), path);
        }
        _ => {
            eprintln!("usage: vgen static <out.rs>");
            std::process::exit(2);
        }
    }
}
