use core::sync::atomic::{AtomicUsize, Ordering};
use parking_lot_core::{ParkToken, SpinWait, UnparkToken};

pub type RwLock<T> = lock_api::RwLock<RawRwLock, T>;
pub type RwLockReadGuard<'a, T> = lock_api::RwLockReadGuard<'a, RawRwLock, T>;
pub type RwLockWriteGuard<'a, T> = lock_api::RwLockWriteGuard<'a, RawRwLock, T>;

const READERS_PARKED: usize = 0b0001;
const WRITERS_PARKED: usize = 0b0010;
const ONE_READER: usize = 0b0100;
const ONE_WRITER: usize = !(READERS_PARKED | WRITERS_PARKED);

pub struct RawRwLock {
    state: AtomicUsize,
}

unsafe impl lock_api::RawRwLock for RawRwLock {
    #[allow(clippy::declare_interior_mutable_const)]
    const INIT: Self = Self {
        state: AtomicUsize::new(0),
    };

    type GuardMarker = lock_api::GuardNoSend;

    #[inline]
    fn try_lock_exclusive(&self) -> bool {
        if let Some(ok) = vsched::try_acquire(self as *const _ as usize, vsched::Mode::Excl) { if !ok { return false; } }
        self.state
            .compare_exchange(0, ONE_WRITER, Ordering::Acquire, Ordering::Relaxed)
            .is_ok()
    }

    #[inline]
    fn lock_exclusive(&self) {
        vsched::acquire(self as *const _ as usize, vsched::Mode::Excl);
        if self
            .state
            .compare_exchange_weak(0, ONE_WRITER, Ordering::Acquire, Ordering::Relaxed)
            .is_err()
        {
            self.lock_exclusive_slow();
        }
    }

    #[inline]
    unsafe fn unlock_exclusive(&self) {
        vsched::release(self as *const _ as usize, vsched::Mode::Excl);
        if self
            .state
            .compare_exchange(ONE_WRITER, 0, Ordering::Release, Ordering::Relaxed)
            .is_err()
        {
            self.unlock_exclusive_slow();
        }
    }

    #[inline]
    fn try_lock_shared(&self) -> bool {
        if let Some(ok) = vsched::try_acquire(self as *const _ as usize, vsched::Mode::Shared) { if !ok { return false; } }
        self.try_lock_shared_fast() || self.try_lock_shared_slow()
    }

    #[inline]
    fn lock_shared(&self) {
        vsched::acquire(self as *const _ as usize, vsched::Mode::Shared);
        if !self.try_lock_shared_fast() {
            self.lock_shared_slow();
        }
    }

    #[inline]
    unsafe fn unlock_shared(&self) {
        vsched::release(self as *const _ as usize, vsched::Mode::Shared);
        let state = self.state.fetch_sub(ONE_READER, Ordering::Release);

        if state == (ONE_READER | WRITERS_PARKED) {
            self.unlock_shared_slow();
        }
    }
}

unsafe impl lock_api::RawRwLockDowngrade for RawRwLock {
    #[inline]
    unsafe fn downgrade(&self) {
        vsched::downgrade(self as *const _ as usize);
        let state = self
            .state
            .fetch_and(ONE_READER | WRITERS_PARKED, Ordering::Release);
        if state & READERS_PARKED != 0 {
            parking_lot_core::unpark_all((self as *const _ as usize) + 1, UnparkToken(0));
        }
    }
}

impl RawRwLock {
    #[cold]
    fn lock_exclusive_slow(&self) {
        let mut acquire_with = 0;
        loop {
            let mut spin = SpinWait::new();
            let mut state = self.state.load(Ordering::Relaxed);

            loop {
                while state & ONE_WRITER == 0 {
                    match self.state.compare_exchange_weak(
                        state,
                        state | ONE_WRITER | acquire_with,
                        Ordering::Acquire,
                        Ordering::Relaxed,
                    ) {
                        Ok(_) => return,
                        Err(e) => state = e,
                    }
                }

                if state & WRITERS_PARKED == 0 {
                    if spin.spin() {
                        state = self.state.load(Ordering::Relaxed);
                        continue;
                    }

                    if let Err(e) = self.state.compare_exchange_weak(
                        state,
                        state | WRITERS_PARKED,
                        Ordering::Relaxed,
                        Ordering::Relaxed,
                    ) {
                        state = e;
                        continue;
                    }
                }

                let _ = unsafe {
                    parking_lot_core::park(
                        self as *const _ as usize,
                        || {
                            let state = self.state.load(Ordering::Relaxed);
                            (state & ONE_WRITER != 0) && (state & WRITERS_PARKED != 0)
                        },
                        || {},
                        |_, _| {},
                        ParkToken(0),
                        None,
                    )
                };

                acquire_with = WRITERS_PARKED;
                break;
            }
        }
    }

    #[cold]
    fn unlock_exclusive_slow(&self) {
        let state = self.state.load(Ordering::Relaxed);
        assert_eq!(state & ONE_WRITER, ONE_WRITER);

        let mut parked = state & (READERS_PARKED | WRITERS_PARKED);
        assert_ne!(parked, 0);

        if parked != (READERS_PARKED | WRITERS_PARKED) {
            if let Err(new_state) =
                self.state
                    .compare_exchange(state, 0, Ordering::Release, Ordering::Relaxed)
            {
                assert_eq!(new_state, ONE_WRITER | READERS_PARKED | WRITERS_PARKED);
                parked = READERS_PARKED | WRITERS_PARKED;
            }
        }

        if parked == (READERS_PARKED | WRITERS_PARKED) {
            self.state.store(WRITERS_PARKED, Ordering::Release);
            parked = READERS_PARKED;
        }

        if parked == READERS_PARKED {
            return unsafe {
                parking_lot_core::unpark_all((self as *const _ as usize) + 1, UnparkToken(0));
            };
        }

        assert_eq!(parked, WRITERS_PARKED);
        unsafe {
            parking_lot_core::unpark_one(self as *const _ as usize, |_| UnparkToken(0));
        }
    }

    #[inline(always)]
    fn try_lock_shared_fast(&self) -> bool {
        let state = self.state.load(Ordering::Relaxed);

        if let Some(new_state) = state.checked_add(ONE_READER) {
            if new_state & ONE_WRITER != ONE_WRITER {
                return self
                    .state
                    .compare_exchange_weak(state, new_state, Ordering::Acquire, Ordering::Relaxed)
                    .is_ok();
            }
        }

        false
    }

    #[cold]
    fn try_lock_shared_slow(&self) -> bool {
        let mut state = self.state.load(Ordering::Relaxed);

        while let Some(new_state) = state.checked_add(ONE_READER) {
            if new_state & ONE_WRITER == ONE_WRITER {
                break;
            }

            match self.state.compare_exchange_weak(
                state,
                new_state,
                Ordering::Acquire,
                Ordering::Relaxed,
            ) {
                Ok(_) => return true,
                Err(e) => state = e,
            }
        }

        false
    }

    #[cold]
    fn lock_shared_slow(&self) {
        loop {
            let mut spin = SpinWait::new();
            let mut state = self.state.load(Ordering::Relaxed);

            loop {
                let mut backoff = SpinWait::new();
                while let Some(new_state) = state.checked_add(ONE_READER) {
                    assert_ne!(
                        new_state & ONE_WRITER,
                        ONE_WRITER,
                        "reader count overflowed",
                    );

                    if self
                        .state
                        .compare_exchange_weak(
                            state,
                            new_state,
                            Ordering::Acquire,
                            Ordering::Relaxed,
                        )
                        .is_ok()
                    {
                        return;
                    }

                    backoff.spin_no_yield();
                    state = self.state.load(Ordering::Relaxed);
                }

                if state & READERS_PARKED == 0 {
                    if spin.spin() {
                        state = self.state.load(Ordering::Relaxed);
                        continue;
                    }

                    if let Err(e) = self.state.compare_exchange_weak(
                        state,
                        state | READERS_PARKED,
                        Ordering::Relaxed,
                        Ordering::Relaxed,
                    ) {
                        state = e;
                        continue;
                    }
                }

                let _ = unsafe {
                    parking_lot_core::park(
                        (self as *const _ as usize) + 1,
                        || {
                            let state = self.state.load(Ordering::Relaxed);
                            (state & ONE_WRITER == ONE_WRITER) && (state & READERS_PARKED != 0)
                        },
                        || {},
                        |_, _| {},
                        ParkToken(0),
                        None,
                    )
                };

                break;
            }
        }
    }

    #[cold]
    fn unlock_shared_slow(&self) {
        if self
            .state
            .compare_exchange(WRITERS_PARKED, 0, Ordering::Relaxed, Ordering::Relaxed)
            .is_ok()
        {
            unsafe {
                parking_lot_core::unpark_one(self as *const _ as usize, |_| UnparkToken(0));
            }
        }
    }
}
