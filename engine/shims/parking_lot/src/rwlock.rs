// Copyright 2016 Amanieu d'Antras
//
// Licensed under the Apache License, Version 2.0, <LICENSE-APACHE or
// http://apache.org/licenses/LICENSE-2.0> or the MIT license <LICENSE-MIT or
// http://opensource.org/licenses/MIT>, at your option. This file may not be
// copied, modified, or distributed except according to those terms.

use crate::raw_rwlock::RawRwLock;

/// A reader-writer lock
///
/// This type of lock allows a number of readers or at most one writer at any
/// point in time. The write portion of this lock typically allows modification
/// of the underlying data (exclusive access) and the read portion of this lock
/// typically allows for read-only access (shared access).
///
/// This lock uses a task-fair locking policy which avoids both reader and
/// writer starvation. This means that readers trying to acquire the lock will
/// block even if the lock is unlocked when there are writers waiting to acquire
/// the lock. Because of this, attempts to recursively acquire a read lock
/// within a single thread may result in a deadlock.
///
/// The type parameter `T` represents the data that this lock protects. It is
/// required that `T` satisfies `Send` to be shared across threads and `Sync` to
/// allow concurrent access through readers. The RAII guards returned from the
/// locking methods implement `Deref` (and `DerefMut` for the `write` methods)
/// to allow access to the contained of the lock.
///
/// # Fairness
///
/// A typical unfair lock can often end up in a situation where a single thread
/// quickly acquires and releases the same lock in succession, which can starve
/// other threads waiting to acquire the rwlock. While this improves throughput
/// because it doesn't force a context switch when a thread tries to re-acquire
/// a rwlock it has just released, this can starve other threads.
///
/// This rwlock uses [eventual fairness](https://trac.webkit.org/changeset/203350)
/// to ensure that the lock will be fair on average without sacrificing
/// throughput. This is done by forcing a fair unlock on average every 0.5ms,
/// which will force the lock to go to the next thread waiting for the rwlock.
///
/// Additionally, any critical section longer than 1ms will always use a fair
/// unlock, which has a negligible impact on throughput considering the length
/// of the critical section.
///
/// You can also force a fair unlock by calling `RwLockReadGuard::unlock_fair`
/// or `RwLockWriteGuard::unlock_fair` when unlocking a mutex instead of simply
/// dropping the guard.
///
/// # Differences from the standard library `RwLock`
///
/// - Supports atomically downgrading a write lock into a read lock.
/// - Task-fair locking policy instead of an unspecified platform default.
/// - No poisoning, the lock is released normally on panic.
/// - Only requires 1 word of space, whereas the standard library boxes the
///   `RwLock` due to platform limitations.
/// - Can be statically constructed.
/// - Does not require any drop glue when dropped.
/// - Inline fast path for the uncontended case.
/// - Efficient handling of micro-contention using adaptive spinning.
/// - Allows raw locking & unlocking without a guard.
/// - Supports eventual fairness so that the rwlock is fair on average.
/// - Optionally allows making the rwlock fair by calling
///   `RwLockReadGuard::unlock_fair` and `RwLockWriteGuard::unlock_fair`.
///
/// # Examples
///
/// ```
/// use parking_lot::RwLock;
///
/// let lock = RwLock::new(5);
///
/// // many reader locks can be held at once
/// {
///     let r1 = lock.read();
///     let r2 = lock.read();
///     assert_eq!(*r1, 5);
///     assert_eq!(*r2, 5);
/// } // read locks are dropped at this point
///
/// // only one write lock may be held, however
/// {
///     let mut w = lock.write();
///     *w += 1;
///     assert_eq!(*w, 6);
/// } // write lock is dropped here
/// ```
pub type RwLock<T> = lock_api::RwLock<RawRwLock, T>;

/// Creates a new instance of an `RwLock<T>` which is unlocked.
///
/// This allows creating a `RwLock<T>` in a constant context on stable Rust.
pub const fn const_rwlock<T>(val: T) -> RwLock<T> {
    RwLock::const_new(<RawRwLock as lock_api::RawRwLock>::INIT, val)
}

/// RAII structure used to release the shared read access of a lock when
/// dropped.
pub type RwLockReadGuard<'a, T> = lock_api::RwLockReadGuard<'a, RawRwLock, T>;

/// RAII structure used to release the exclusive write access of a lock when
/// dropped.
pub type RwLockWriteGuard<'a, T> = lock_api::RwLockWriteGuard<'a, RawRwLock, T>;

/// An RAII read lock guard returned by `RwLockReadGuard::map`, which can point to a
/// subfield of the protected data.
///
/// The main difference between `MappedRwLockReadGuard` and `RwLockReadGuard` is that the
/// former doesn't support temporarily unlocking and re-locking, since that
/// could introduce soundness issues if the locked object is modified by another
/// thread.
pub type MappedRwLockReadGuard<'a, T> = lock_api::MappedRwLockReadGuard<'a, RawRwLock, T>;

/// An RAII write lock guard returned by `RwLockWriteGuard::map`, which can point to a
/// subfield of the protected data.
///
/// The main difference between `MappedRwLockWriteGuard` and `RwLockWriteGuard` is that the
/// former doesn't support temporarily unlocking and re-locking, since that
/// could introduce soundness issues if the locked object is modified by another
/// thread.
pub type MappedRwLockWriteGuard<'a, T> = lock_api::MappedRwLockWriteGuard<'a, RawRwLock, T>;

/// RAII structure used to release the upgradable read access of a lock when
/// dropped.
pub type RwLockUpgradableReadGuard<'a, T> = lock_api::RwLockUpgradableReadGuard<'a, RawRwLock, T>;

#[cfg(test)]
mod tests {
    use crate::{RwLock, RwLockUpgradableReadGuard, RwLockWriteGuard};
    use rand::Rng;
    use std::sync::atomic::{AtomicUsize, Ordering};
    use std::sync::mpsc::channel;
    use std::sync::Arc;
    use std::thread;
    use std::time::Duration;

    #[cfg(feature = "serde")]
    use bincode::{deserialize, serialize};

    #[derive(Eq, PartialEq, Debug)]
    struct NonCopy(i32);

    #[test]
    fn smoke() {
        let l = RwLock::new(());
        drop(l.read());
        drop(l.write());
        drop(l.upgradable_read());
        drop((l.read(), l.read()));
        drop((l.read(), l.upgradable_read()));
        drop(l.write());
    }

    #[test]
    fn frob() {
        const N: u32 = 10;
        const M: u32 = 1000;

        let r = Arc::new(RwLock::new(()));

        let (tx, rx) = channel::<()>();
        for _ in 0..N {
            let tx = tx.clone();
            let r = r.clone();
            thread::spawn(move || {
                let mut rng = rand::thread_rng();
                for _ in 0..M {
                    if rng.gen_bool(1.0 / N as f64) {
                        drop(r.write());
                    } else {
                        drop(r.read());
                    }
                }
                drop(tx);
            });
        }
        drop(tx);
        let _ = rx.recv();
    }

    #[test]
    fn test_rw_arc_no_poison_wr() {
        let arc = Arc::new(RwLock::new(1));
        let arc2 = arc.clone();
        let _: Result<(), _> = thread::spawn(move || {
            let _lock = arc2.write();
            panic!();
        })
        .join();
        let lock = arc.read();
        assert_eq!(*lock, 1);
    }

    #[test]
    fn test_rw_arc_no_poison_ww() {
        let arc = Arc::new(RwLock::new(1));
        let arc2 = arc.clone();
        let _: Result<(), _> = thread::spawn(move || {
            let _lock = arc2.write();
            panic!();
        })
        .join();
        let lock = arc.write();
        assert_eq!(*lock, 1);
    }

    #[test]
    fn test_rw_arc_no_poison_rr() {
        let arc = Arc::new(RwLock::new(1));
        let arc2 = arc.clone();
        let _: Result<(), _> = thread::spawn(move || {
            let _lock = arc2.read();
            panic!();
        })
        .join();
        let lock = arc.read();
        assert_eq!(*lock, 1);
    }

    #[test]
    fn test_rw_arc_no_poison_rw() {
        let arc = Arc::new(RwLock::new(1));
        let arc2 = arc.clone();
        let _: Result<(), _> = thread::spawn(move || {
            let _lock = arc2.read();
            panic!()
        })
        .join();
        let lock = arc.write();
        assert_eq!(*lock, 1);
    }

    #[test]
    fn test_ruw_arc() {
        let arc = Arc::new(RwLock::new(0));
        let arc2 = arc.clone();
        let (tx, rx) = channel();

        thread::spawn(move || {
            for _ in 0..10 {
                let mut lock = arc2.write();
                let tmp = *lock;
                *lock = -1;
                thread::yield_now();
                *lock = tmp + 1;
            }
            tx.send(()).unwrap();
        });

        let mut children = Vec::new();

        // Upgradable readers try to catch the writer in the act and also
        // try to touch the value
        for _ in 0..5 {
            let arc3 = arc.clone();
            children.push(thread::spawn(move || {
                let lock = arc3.upgradable_read();
                let tmp = *lock;
                assert!(tmp >= 0);
                thread::yield_now();
                let mut lock = RwLockUpgradableReadGuard::upgrade(lock);
                assert_eq!(tmp, *lock);
                *lock = -1;
                thread::yield_now();
                *lock = tmp + 1;
            }));
        }

        // Readers try to catch the writers in the act
        for _ in 0..5 {
            let arc4 = arc.clone();
            children.push(thread::spawn(move || {
                let lock = arc4.read();
                assert!(*lock >= 0);
            }));
        }

        // Wait for children to pass their asserts
        for r in children {
            assert!(r.join().is_ok());
        }

        // Wait for writer to finish
        rx.recv().unwrap();
        let lock = arc.read();
        assert_eq!(*lock, 15);
    }

    #[test]
    fn test_rw_arc() {
        let arc = Arc::new(RwLock::new(0));
        let arc2 = arc.clone();
        let (tx, rx) = channel();

        thread::spawn(move || {
            let mut lock = arc2.write();
            for _ in 0..10 {
                let tmp = *lock;
                *lock = -1;
                thread::yield_now();
                *lock = tmp + 1;
            }
            tx.send(()).unwrap();
        });

        // Readers try to catch the writer in the act
        let mut children = Vec::new();
        for _ in 0..5 {
            let arc3 = arc.clone();
            children.push(thread::spawn(move || {
                let lock = arc3.read();
                assert!(*lock >= 0);
            }));
        }

        // Wait for children to pass their asserts
        for r in children {
            assert!(r.join().is_ok());
        }

        // Wait for writer to finish
        rx.recv().unwrap();
        let lock = arc.read();
        assert_eq!(*lock, 10);
    }

    #[test]
    fn test_rw_arc_access_in_unwind() {
        let arc = Arc::new(RwLock::new(1));
        let arc2 = arc.clone();
        let _ = thread::spawn(move || {
            struct Unwinder {
                i: Arc<RwLock<isize>>,
            }
            impl Drop for Unwinder {
                fn drop(&mut self) {
                    let mut lock = self.i.write();
                    *lock += 1;
                }
            }
            let _u = Unwinder { i: arc2 };
            panic!();
        })
        .join();
        let lock = arc.read();
        assert_eq!(*lock, 2);
    }

    #[test]
    fn test_rwlock_unsized() {
        let rw: &RwLock<[i32]> = &RwLock::new([1, 2, 3]);
        {
            let b = &mut *rw.write();
            b[0] = 4;
            b[2] = 5;
        }
        let comp: &[i32] = &[4, 2, 5];
        assert_eq!(&*rw.read(), comp);
    }

    #[test]
    fn test_rwlock_try_read() {
        let lock = RwLock::new(0isize);
        {
            let read_guard = lock.read();

            let read_result = lock.try_read();
            assert!(
                read_result.is_some(),
                "try_read should succeed while read_guard is in scope"
            );

            drop(read_guard);
        }
        {
            let upgrade_guard = lock.upgradable_read();

            let read_result = lock.try_read();
            assert!(
                read_result.is_some(),
                "try_read should succeed while upgrade_guard is in scope"
            );

            drop(upgrade_guard);
        }
        {
            let write_guard = lock.write();

            let read_result = lock.try_read();
            assert!(
                read_result.is_none(),
                "try_read should fail while write_guard is in scope"
            );

            drop(write_guard);
        }
    }

    #[test]
    fn test_rwlock_try_write() {
        let lock = RwLock::new(0isize);
        {
            let read_guard = lock.read();

            let write_result = lock.try_write();
            assert!(
                write_result.is_none(),
                "try_write should fail while read_guard is in scope"
            );
            assert!(lock.is_locked());
            assert!(!lock.is_locked_exclusive());

            drop(read_guard);
        }
        {
            let upgrade_guard = lock.upgradable_read();

            let write_result = lock.try_write();
            assert!(
                write_result.is_none(),
                "try_write should fail while upgrade_guard is in scope"
            );
            assert!(lock.is_locked());
            assert!(!lock.is_locked_exclusive());

            drop(upgrade_guard);
        }
        {
            let write_guard = lock.write();

            let write_result = lock.try_write();
            assert!(
                write_result.is_none(),
                "try_write should fail while write_guard is in scope"
            );
            assert!(lock.is_locked());
            assert!(lock.is_locked_exclusive());

            drop(write_guard);
        }
    }

    #[test]
    fn test_rwlock_try_upgrade() {
        let lock = RwLock::new(0isize);
        {
            let read_guard = lock.read();

            let upgrade_result = lock.try_upgradable_read();
            assert!(
                upgrade_result.is_some(),
                "try_upgradable_read should succeed while read_guard is in scope"
            );

            drop(read_guard);
        }
        {
            let upgrade_guard = lock.upgradable_read();

            let upgrade_result = lock.try_upgradable_read();
            assert!(
                upgrade_result.is_none(),
                "try_upgradable_read should fail while upgrade_guard is in scope"
            );

            drop(upgrade_guard);
        }
        {
            let write_guard = lock.write();

            let upgrade_result = lock.try_upgradable_read();
            assert!(
                upgrade_result.is_none(),
                "try_upgradable should fail while write_guard is in scope"
            );

            drop(write_guard);
        }
    }

    #[test]
    fn test_into_inner() {
        let m = RwLock::new(NonCopy(10));
        assert_eq!(m.into_inner(), NonCopy(10));
    }

    #[test]
    fn test_into_inner_drop() {
        struct Foo(Arc<AtomicUsize>);
        impl Drop for Foo {
            fn drop(&mut self) {
                self.0.fetch_add(1, Ordering::SeqCst);
            }
        }
        let num_drops = Arc::new(AtomicUsize::new(0));
        let m = RwLock::new(Foo(num_drops.clone()));
        assert_eq!(num_drops.load(Ordering::SeqCst), 0);
        {
            let _inner = m.into_inner();
            assert_eq!(num_drops.load(Ordering::SeqCst), 0);
        }
        assert_eq!(num_drops.load(Ordering::SeqCst), 1);
    }

    #[test]
    fn test_get_mut() {
        let mut m = RwLock::new(NonCopy(10));
        *m.get_mut() = NonCopy(20);
        assert_eq!(m.into_inner(), NonCopy(20));
    }

    #[test]
    fn test_rwlockguard_sync() {
        fn sync<T: Sync>(_: T) {}

        let rwlock = RwLock::new(());
        sync(rwlock.read());
        sync(rwlock.write());
    }

    #[test]
    fn test_rwlock_downgrade() {
        let x = Arc::new(RwLock::new(0));
        let mut handles = Vec::new();
        for _ in 0..8 {
            let x = x.clone();
            handles.push(thread::spawn(move || {
                for _ in 0..100 {
                    let mut writer = x.write();
                    *writer += 1;
                    let cur_val = *writer;
                    let reader = RwLockWriteGuard::downgrade(writer);
                    assert_eq!(cur_val, *reader);
                }
            }));
        }
        for handle in handles {
            handle.join().unwrap()
        }
        assert_eq!(*x.read(), 800);
    }

    #[test]
    fn test_rwlock_recursive() {
        let arc = Arc::new(RwLock::new(1));
        let arc2 = arc.clone();
        let lock1 = arc.read();
        let t = thread::spawn(move || {
            let _lock = arc2.write();
        });

        if cfg!(not(all(target_env = "sgx", target_vendor = "fortanix"))) {
            thread::sleep(Duration::from_millis(100));
        } else {
            // FIXME: https://github.com/fortanix/rust-sgx/issues/31
            for _ in 0..100 {
                thread::yield_now();
            }
        }

        // A normal read would block here since there is a pending writer
        let lock2 = arc.read_recursive();

        // Unblock the thread and join it.
        drop(lock1);
        drop(lock2);
        t.join().unwrap();
    }

    #[test]
    fn test_rwlock_debug() {
        let x = RwLock::new(vec![0u8, 10]);

        assert_eq!(format!("{:?}", x), "RwLock { data: [0, 10] }");
        let _lock = x.write();
        assert_eq!(format!("{:?}", x), "RwLock { data: <locked> }");
    }

    #[test]
    fn test_clone() {
        let rwlock = RwLock::new(Arc::new(1));
        let a = rwlock.read_recursive();
        let b = a.clone();
        assert_eq!(Arc::strong_count(&b), 2);
    }

    #[cfg(feature = "serde")]
    #[test]
    fn test_serde() {
        let contents: Vec<u8> = vec![0, 1, 2];
        let mutex = RwLock::new(contents.clone());

        let serialized = serialize(&mutex).unwrap();
        let deserialized: RwLock<Vec<u8>> = deserialize(&serialized).unwrap();

        assert_eq!(*(mutex.read()), *(deserialized.read()));
        assert_eq!(contents, *(deserialized.read()));
    }

    #[test]
    fn test_issue_203() {
        struct Bar(RwLock<()>);

        impl Drop for Bar {
            fn drop(&mut self) {
                let _n = self.0.write();
            }
        }

        thread_local! {
            static B: Bar = Bar(RwLock::new(()));
        }

        thread::spawn(|| {
            B.with(|_| ());

            let a = RwLock::new(());
            let _a = a.read();
        })
        .join()
        .unwrap();
    }

    #[test]
    fn test_rw_write_is_locked() {
        let lock = RwLock::new(0isize);
        {
            let _read_guard = lock.read();

            assert!(lock.is_locked());
            assert!(!lock.is_locked_exclusive());
        }

        {
            let _write_guard = lock.write();

            assert!(lock.is_locked());
            assert!(lock.is_locked_exclusive());
        }
    }

    #[test]
    #[cfg(feature = "arc_lock")]
    fn test_issue_430() {
        let lock = std::sync::Arc::new(RwLock::new(0));

        let mut rl = lock.upgradable_read_arc();

        rl.with_upgraded(|_| {
            println!("lock upgrade");
        });

        rl.with_upgraded(|_| {
            println!("lock upgrade");
        });

        drop(lock);
    }
}
