// Copyright 2016 Amanieu d'Antras
//
// Licensed under the Apache License, Version 2.0, <LICENSE-APACHE or
// http://apache.org/licenses/LICENSE-2.0> or the MIT license <LICENSE-MIT or
// http://opensource.org/licenses/MIT>, at your option. This file may not be
// copied, modified, or distributed except according to those terms.

//! This library provides implementations of `Mutex`, `RwLock`, `Condvar` and
//! `Once` that are smaller, faster and more flexible than those in the Rust
//! standard library. It also provides a `ReentrantMutex` type.

#![warn(missing_docs)]
#![warn(rust_2018_idioms)]

mod condvar;
mod elision;
mod fair_mutex;
mod mutex;
mod once;
mod raw_fair_mutex;
mod raw_mutex;
mod raw_rwlock;
mod remutex;
mod rwlock;
mod util;

#[cfg(feature = "deadlock_detection")]
pub mod deadlock;
#[cfg(not(feature = "deadlock_detection"))]
mod deadlock;

// If deadlock detection is enabled, we cannot allow lock guards to be sent to
// other threads.
#[cfg(all(feature = "send_guard", feature = "deadlock_detection"))]
compile_error!("the `send_guard` and `deadlock_detection` features cannot be used together");
#[cfg(feature = "send_guard")]
type GuardMarker = lock_api::GuardSend;
#[cfg(not(feature = "send_guard"))]
type GuardMarker = lock_api::GuardNoSend;

pub use self::condvar::{Condvar, WaitTimeoutResult};
pub use self::fair_mutex::{const_fair_mutex, FairMutex, FairMutexGuard, MappedFairMutexGuard};
pub use self::mutex::{const_mutex, MappedMutexGuard, Mutex, MutexGuard};
pub use self::once::{Once, OnceState};
pub use self::raw_fair_mutex::RawFairMutex;
pub use self::raw_mutex::RawMutex;
pub use self::raw_rwlock::RawRwLock;
pub use self::remutex::{
    const_reentrant_mutex, MappedReentrantMutexGuard, RawThreadId, ReentrantMutex,
    ReentrantMutexGuard,
};
pub use self::rwlock::{
    const_rwlock, MappedRwLockReadGuard, MappedRwLockWriteGuard, RwLock, RwLockReadGuard,
    RwLockUpgradableReadGuard, RwLockWriteGuard,
};
pub use ::lock_api;

#[cfg(feature = "arc_lock")]
pub use self::lock_api::{
    ArcMutexGuard, ArcReentrantMutexGuard, ArcRwLockReadGuard, ArcRwLockUpgradableReadGuard,
    ArcRwLockWriteGuard,
};
