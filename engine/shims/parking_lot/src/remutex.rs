// Copyright 2016 Amanieu d'Antras
//
// Licensed under the Apache License, Version 2.0, <LICENSE-APACHE or
// http://apache.org/licenses/LICENSE-2.0> or the MIT license <LICENSE-MIT or
// http://opensource.org/licenses/MIT>, at your option. This file may not be
// copied, modified, or distributed except according to those terms.

use crate::raw_mutex::RawMutex;
use core::num::NonZeroUsize;
use lock_api::{self, GetThreadId};

/// Implementation of the `GetThreadId` trait for `lock_api::ReentrantMutex`.
pub struct RawThreadId;

unsafe impl GetThreadId for RawThreadId {
    const INIT: RawThreadId = RawThreadId;

    fn nonzero_thread_id(&self) -> NonZeroUsize {
        // The address of a thread-local variable is guaranteed to be unique to the
        // current thread, and is also guaranteed to be non-zero. The variable has to have a
        // non-zero size to guarantee it has a unique address for each thread.
        thread_local!(static KEY: u8 = 0);
        KEY.with(|x| {
            NonZeroUsize::new(x as *const _ as usize)
                .expect("thread-local variable address is null")
        })
    }
}

/// A mutex which can be recursively locked by a single thread.
///
/// This type is identical to `Mutex` except for the following points:
///
/// - Locking multiple times from the same thread will work correctly instead of
///   deadlocking.
/// - `ReentrantMutexGuard` does not give mutable references to the locked data.
///   Use a `RefCell` if you need this.
///
/// See [`Mutex`](crate::Mutex) for more details about the underlying mutex
/// primitive.
pub type ReentrantMutex<T> = lock_api::ReentrantMutex<RawMutex, RawThreadId, T>;

/// Creates a new reentrant mutex in an unlocked state ready for use.
///
/// This allows creating a reentrant mutex in a constant context on stable Rust.
pub const fn const_reentrant_mutex<T>(val: T) -> ReentrantMutex<T> {
    ReentrantMutex::const_new(
        <RawMutex as lock_api::RawMutex>::INIT,
        <RawThreadId as lock_api::GetThreadId>::INIT,
        val,
    )
}

/// An RAII implementation of a "scoped lock" of a reentrant mutex. When this structure
/// is dropped (falls out of scope), the lock will be unlocked.
///
/// The data protected by the mutex can be accessed through this guard via its
/// `Deref` implementation.
pub type ReentrantMutexGuard<'a, T> = lock_api::ReentrantMutexGuard<'a, RawMutex, RawThreadId, T>;

/// An RAII mutex guard returned by `ReentrantMutexGuard::map`, which can point to a
/// subfield of the protected data.
///
/// The main difference between `MappedReentrantMutexGuard` and `ReentrantMutexGuard` is that the
/// former doesn't support temporarily unlocking and re-locking, since that
/// could introduce soundness issues if the locked object is modified by another
/// thread.
pub type MappedReentrantMutexGuard<'a, T> =
    lock_api::MappedReentrantMutexGuard<'a, RawMutex, RawThreadId, T>;

#[cfg(test)]
mod tests {
    use crate::ReentrantMutex;
    use crate::ReentrantMutexGuard;
    use std::cell::RefCell;
    use std::sync::mpsc::channel;
    use std::sync::Arc;
    use std::thread;

    #[cfg(feature = "serde")]
    use bincode::{deserialize, serialize};

    #[test]
    fn smoke() {
        let m = ReentrantMutex::new(2);
        {
            let a = m.lock();
            {
                let b = m.lock();
                {
                    let c = m.lock();
                    assert_eq!(*c, 2);
                }
                assert_eq!(*b, 2);
            }
            assert_eq!(*a, 2);
        }
    }

    #[test]
    fn is_mutex() {
        let m = Arc::new(ReentrantMutex::new(RefCell::new(0)));
        let m2 = m.clone();
        let lock = m.lock();
        let child = thread::spawn(move || {
            let lock = m2.lock();
            assert_eq!(*lock.borrow(), 4950);
        });
        for i in 0..100 {
            let lock = m.lock();
            *lock.borrow_mut() += i;
        }
        drop(lock);
        child.join().unwrap();
    }

    #[test]
    fn trylock_works() {
        let m = Arc::new(ReentrantMutex::new(()));
        let m2 = m.clone();
        let _lock = m.try_lock();
        let _lock2 = m.try_lock();
        thread::spawn(move || {
            let lock = m2.try_lock();
            assert!(lock.is_none());
        })
        .join()
        .unwrap();
        let _lock3 = m.try_lock();
    }

    #[test]
    fn test_reentrant_mutex_debug() {
        let mutex = ReentrantMutex::new(vec![0u8, 10]);

        assert_eq!(format!("{:?}", mutex), "ReentrantMutex { data: [0, 10] }");
    }

    #[test]
    fn test_reentrant_mutex_bump() {
        let mutex = Arc::new(ReentrantMutex::new(()));
        let mutex2 = mutex.clone();

        let mut guard = mutex.lock();

        let (tx, rx) = channel();

        thread::spawn(move || {
            let _guard = mutex2.lock();
            tx.send(()).unwrap();
        });

        // `bump()` repeatedly until the thread starts up and requests the lock
        while rx.try_recv().is_err() {
            ReentrantMutexGuard::bump(&mut guard);
        }
    }

    #[cfg(feature = "serde")]
    #[test]
    fn test_serde() {
        let contents: Vec<u8> = vec![0, 1, 2];
        let mutex = ReentrantMutex::new(contents.clone());

        let serialized = serialize(&mutex).unwrap();
        let deserialized: ReentrantMutex<Vec<u8>> = deserialize(&serialized).unwrap();

        assert_eq!(*(mutex.lock()), *(deserialized.lock()));
        assert_eq!(contents, *(deserialized.lock()));
    }
}
