// Copyright 2016 Amanieu d'Antras
//
// Licensed under the Apache License, Version 2.0, <LICENSE-APACHE or
// http://apache.org/licenses/LICENSE-2.0> or the MIT license <LICENSE-MIT or
// http://opensource.org/licenses/MIT>, at your option. This file may not be
// copied, modified, or distributed except according to those terms.

use crate::raw_mutex::RawMutex;

/// A mutual exclusion primitive useful for protecting shared data
///
/// This mutex will block threads waiting for the lock to become available. The
/// mutex can be statically initialized or created by the `new`
/// constructor. Each mutex has a type parameter which represents the data that
/// it is protecting. The data can only be accessed through the RAII guards
/// returned from `lock` and `try_lock`, which guarantees that the data is only
/// ever accessed when the mutex is locked.
///
/// # Fairness
///
/// A typical unfair lock can often end up in a situation where a single thread
/// quickly acquires and releases the same mutex in succession, which can starve
/// other threads waiting to acquire the mutex. While this improves throughput
/// because it doesn't force a context switch when a thread tries to re-acquire
/// a mutex it has just released, this can starve other threads.
///
/// This mutex uses [eventual fairness](https://trac.webkit.org/changeset/203350)
/// to ensure that the lock will be fair on average without sacrificing
/// throughput. This is done by forcing a fair unlock on average every 0.5ms,
/// which will force the lock to go to the next thread waiting for the mutex.
///
/// Additionally, any critical section longer than 1ms will always use a fair
/// unlock, which has a negligible impact on throughput considering the length
/// of the critical section.
///
/// You can also force a fair unlock by calling `MutexGuard::unlock_fair` when
/// unlocking a mutex instead of simply dropping the `MutexGuard`.
///
/// # Differences from the standard library `Mutex`
///
/// - No poisoning, the lock is released normally on panic.
/// - Only requires 1 byte of space, whereas the standard library boxes the
///   `Mutex` due to platform limitations.
/// - Can be statically constructed.
/// - Does not require any drop glue when dropped.
/// - Inline fast path for the uncontended case.
/// - Efficient handling of micro-contention using adaptive spinning.
/// - Allows raw locking & unlocking without a guard.
/// - Supports eventual fairness so that the mutex is fair on average.
/// - Optionally allows making the mutex fair by calling `MutexGuard::unlock_fair`.
///
/// # Examples
///
/// ```
/// use parking_lot::Mutex;
/// use std::sync::{Arc, mpsc::channel};
/// use std::thread;
///
/// const N: usize = 10;
///
/// // Spawn a few threads to increment a shared variable (non-atomically), and
/// // let the main thread know once all increments are done.
/// //
/// // Here we're using an Arc to share memory among threads, and the data inside
/// // the Arc is protected with a mutex.
/// let data = Arc::new(Mutex::new(0));
///
/// let (tx, rx) = channel();
/// for _ in 0..10 {
///     let (data, tx) = (Arc::clone(&data), tx.clone());
///     thread::spawn(move || {
///         // The shared state can only be accessed once the lock is held.
///         // Our non-atomic increment is safe because we're the only thread
///         // which can access the shared state when the lock is held.
///         let mut data = data.lock();
///         *data += 1;
///         if *data == N {
///             tx.send(()).unwrap();
///         }
///         // the lock is unlocked here when `data` goes out of scope.
///     });
/// }
///
/// rx.recv().unwrap();
/// ```
pub type Mutex<T> = lock_api::Mutex<RawMutex, T>;

/// Creates a new mutex in an unlocked state ready for use.
///
/// This allows creating a mutex in a constant context on stable Rust.
pub const fn const_mutex<T>(val: T) -> Mutex<T> {
    Mutex::const_new(<RawMutex as lock_api::RawMutex>::INIT, val)
}

/// An RAII implementation of a "scoped lock" of a mutex. When this structure is
/// dropped (falls out of scope), the lock will be unlocked.
///
/// The data protected by the mutex can be accessed through this guard via its
/// `Deref` and `DerefMut` implementations.
pub type MutexGuard<'a, T> = lock_api::MutexGuard<'a, RawMutex, T>;

/// An RAII mutex guard returned by `MutexGuard::map`, which can point to a
/// subfield of the protected data.
///
/// The main difference between `MappedMutexGuard` and `MutexGuard` is that the
/// former doesn't support temporarily unlocking and re-locking, since that
/// could introduce soundness issues if the locked object is modified by another
/// thread.
pub type MappedMutexGuard<'a, T> = lock_api::MappedMutexGuard<'a, RawMutex, T>;

#[cfg(test)]
mod tests {
    use crate::{Condvar, MappedMutexGuard, Mutex, MutexGuard};
    use std::collections::HashMap;
    use std::ops::Deref;
    use std::sync::atomic::{AtomicUsize, Ordering};
    use std::sync::mpsc::channel;
    use std::sync::Arc;
    use std::thread;

    #[cfg(feature = "serde")]
    use bincode::{deserialize, serialize};

    struct Packet<T>(Arc<(Mutex<T>, Condvar)>);

    #[derive(Eq, PartialEq, Debug)]
    struct NonCopy(i32);

    unsafe impl<T: Send> Send for Packet<T> {}
    unsafe impl<T> Sync for Packet<T> {}

    #[test]
    fn smoke() {
        let m = Mutex::new(());
        drop(m.lock());
        drop(m.lock());
    }

    #[test]
    fn lots_and_lots() {
        const J: u32 = 1000;
        const K: u32 = 3;

        let m = Arc::new(Mutex::new(0));

        fn inc(m: &Mutex<u32>) {
            for _ in 0..J {
                *m.lock() += 1;
            }
        }

        let (tx, rx) = channel();
        for _ in 0..K {
            let tx2 = tx.clone();
            let m2 = m.clone();
            thread::spawn(move || {
                inc(&m2);
                tx2.send(()).unwrap();
            });
            let tx2 = tx.clone();
            let m2 = m.clone();
            thread::spawn(move || {
                inc(&m2);
                tx2.send(()).unwrap();
            });
        }

        drop(tx);
        for _ in 0..2 * K {
            rx.recv().unwrap();
        }
        assert_eq!(*m.lock(), J * K * 2);
    }

    #[test]
    fn try_lock() {
        let m = Mutex::new(());
        *m.try_lock().unwrap() = ();
    }

    #[test]
    fn test_into_inner() {
        let m = Mutex::new(NonCopy(10));
        assert_eq!(m.into_inner(), NonCopy(10));
    }

    #[test]
    fn test_into_inner_drop() {
        struct Foo(Arc<AtomicUsize>);
        impl Drop for Foo {
            fn drop(&mut self) {
                self.0.fetch_add(1, Ordering::SeqCst);
            }
        }
        let num_drops = Arc::new(AtomicUsize::new(0));
        let m = Mutex::new(Foo(num_drops.clone()));
        assert_eq!(num_drops.load(Ordering::SeqCst), 0);
        {
            let _inner = m.into_inner();
            assert_eq!(num_drops.load(Ordering::SeqCst), 0);
        }
        assert_eq!(num_drops.load(Ordering::SeqCst), 1);
    }

    #[test]
    fn test_get_mut() {
        let mut m = Mutex::new(NonCopy(10));
        *m.get_mut() = NonCopy(20);
        assert_eq!(m.into_inner(), NonCopy(20));
    }

    #[test]
    fn test_mutex_arc_condvar() {
        let packet = Packet(Arc::new((Mutex::new(false), Condvar::new())));
        let packet2 = Packet(packet.0.clone());
        let (tx, rx) = channel();
        let _t = thread::spawn(move || {
            // wait until parent gets in
            rx.recv().unwrap();
            let (lock, cvar) = &*packet2.0;
            let mut lock = lock.lock();
            *lock = true;
            cvar.notify_one();
        });

        let (lock, cvar) = &*packet.0;
        let mut lock = lock.lock();
        tx.send(()).unwrap();
        assert!(!*lock);
        while !*lock {
            cvar.wait(&mut lock);
        }
    }

    #[test]
    fn test_mutex_arc_nested() {
        // Tests nested mutexes and access
        // to underlying data.
        let arc = Arc::new(Mutex::new(1));
        let arc2 = Arc::new(Mutex::new(arc));
        let (tx, rx) = channel();
        let _t = thread::spawn(move || {
            let lock = arc2.lock();
            let lock2 = lock.lock();
            assert_eq!(*lock2, 1);
            tx.send(()).unwrap();
        });
        rx.recv().unwrap();
    }

    #[test]
    fn test_mutex_arc_access_in_unwind() {
        let arc = Arc::new(Mutex::new(1));
        let arc2 = arc.clone();
        let _ = thread::spawn(move || {
            struct Unwinder {
                i: Arc<Mutex<i32>>,
            }
            impl Drop for Unwinder {
                fn drop(&mut self) {
                    *self.i.lock() += 1;
                }
            }
            let _u = Unwinder { i: arc2 };
            panic!();
        })
        .join();
        let lock = arc.lock();
        assert_eq!(*lock, 2);
    }

    #[test]
    fn test_mutex_unsized() {
        let mutex: &Mutex<[i32]> = &Mutex::new([1, 2, 3]);
        {
            let b = &mut *mutex.lock();
            b[0] = 4;
            b[2] = 5;
        }
        let comp: &[i32] = &[4, 2, 5];
        assert_eq!(&*mutex.lock(), comp);
    }

    #[test]
    fn test_mutexguard_sync() {
        fn sync<T: Sync>(_: T) {}

        let mutex = Mutex::new(());
        sync(mutex.lock());
    }

    #[test]
    fn test_mutex_debug() {
        let mutex = Mutex::new(vec![0u8, 10]);

        assert_eq!(format!("{:?}", mutex), "Mutex { data: [0, 10] }");
        let _lock = mutex.lock();
        assert_eq!(format!("{:?}", mutex), "Mutex { data: <locked> }");
    }

    #[cfg(feature = "serde")]
    #[test]
    fn test_serde() {
        let contents: Vec<u8> = vec![0, 1, 2];
        let mutex = Mutex::new(contents.clone());

        let serialized = serialize(&mutex).unwrap();
        let deserialized: Mutex<Vec<u8>> = deserialize(&serialized).unwrap();

        assert_eq!(*(mutex.lock()), *(deserialized.lock()));
        assert_eq!(contents, *(deserialized.lock()));
    }

    #[test]
    fn test_map_or_err_not_mapped() {
        let mut map = HashMap::new();
        map.insert("hello".to_string(), "world".to_string());

        let mutex = Mutex::new(map);
        let guard = mutex.lock();
        let guard = match MutexGuard::try_map_or_err(guard, |the_map| {
            the_map.get_mut("hello2").ok_or(12345i32)
        }) {
            Ok(_) => unreachable!(),
            Err((guard, data)) => {
                assert_eq!(data, 12345i32);
                assert_eq!(guard.get("hello"), Some(&"world".to_string()));
                guard
            }
        };

        // Lets try again
        let mapped_guard = match MutexGuard::try_map_or_err(guard, |the_map| {
            the_map.get_mut("hello").ok_or("unreachable")
        }) {
            Ok(mapped_guard) => mapped_guard,
            Err((_, _)) => unreachable!(),
        };

        assert_eq!(mapped_guard.as_str(), "world");

        match MappedMutexGuard::try_map_or_err(mapped_guard, |the_string| {
            if the_string != "world" {
                //unreachable
                Ok(the_string.as_mut_str())
            } else {
                Err(45678i32)
            }
        }) {
            Ok(_) => unreachable!(),
            Err((guard, err)) => {
                assert_eq!(guard.as_str(), "world");
                assert_eq!(err, 45678i32);
            }
        };
    }

    #[test]
    fn test_map_or_err_mapped() {
        let mut map = HashMap::new();
        map.insert("hello".to_string(), "world".to_string());

        let mutex = Mutex::new(map);
        let guard = mutex.lock();
        let mapped_guard = match MutexGuard::try_map_or_err(guard, |the_map| {
            the_map.get_mut("hello").ok_or("unreachable")
        }) {
            Ok(mapped_guard) => mapped_guard,
            Err((_, _)) => unreachable!(),
        };

        assert_eq!(mapped_guard.as_str(), "world");

        match MappedMutexGuard::try_map_or_err(mapped_guard, |the_string| {
            if the_string == "world" {
                Ok(the_string.as_mut_str())
            } else {
                Err("unreachable")
            }
        }) {
            Ok(mapped_guard) => assert_eq!(mapped_guard.deref(), "world"),
            Err((_, _)) => unreachable!(),
        };
    }
}
