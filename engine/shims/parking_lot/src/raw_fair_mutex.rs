// Copyright 2016 Amanieu d'Antras
//
// Licensed under the Apache License, Version 2.0, <LICENSE-APACHE or
// http://apache.org/licenses/LICENSE-2.0> or the MIT license <LICENSE-MIT or
// http://opensource.org/licenses/MIT>, at your option. This file may not be
// copied, modified, or distributed except according to those terms.

use crate::raw_mutex::RawMutex;
use lock_api::RawMutexFair;

/// Raw fair mutex type backed by the parking lot.
pub struct RawFairMutex(RawMutex);

unsafe impl lock_api::RawMutex for RawFairMutex {
    const INIT: Self = RawFairMutex(<RawMutex as lock_api::RawMutex>::INIT);

    type GuardMarker = <RawMutex as lock_api::RawMutex>::GuardMarker;

    #[inline]
    fn lock(&self) {
        self.0.lock()
    }

    #[inline]
    fn try_lock(&self) -> bool {
        self.0.try_lock()
    }

    #[inline]
    unsafe fn unlock(&self) {
        self.unlock_fair()
    }

    #[inline]
    fn is_locked(&self) -> bool {
        self.0.is_locked()
    }
}

unsafe impl lock_api::RawMutexFair for RawFairMutex {
    #[inline]
    unsafe fn unlock_fair(&self) {
        self.0.unlock_fair()
    }

    #[inline]
    unsafe fn bump(&self) {
        self.0.bump()
    }
}

unsafe impl lock_api::RawMutexTimed for RawFairMutex {
    type Duration = <RawMutex as lock_api::RawMutexTimed>::Duration;
    type Instant = <RawMutex as lock_api::RawMutexTimed>::Instant;

    #[inline]
    fn try_lock_until(&self, timeout: Self::Instant) -> bool {
        self.0.try_lock_until(timeout)
    }

    #[inline]
    fn try_lock_for(&self, timeout: Self::Duration) -> bool {
        self.0.try_lock_for(timeout)
    }
}
