// Copyright 2016 Amanieu d'Antras
//
// Licensed under the Apache License, Version 2.0, <LICENSE-APACHE or
// http://apache.org/licenses/LICENSE-2.0> or the MIT license <LICENSE-MIT or
// http://opensource.org/licenses/MIT>, at your option. This file may not be
// copied, modified, or distributed except according to those terms.

use crate::mutex::MutexGuard;
use crate::raw_mutex::{RawMutex, TOKEN_HANDOFF, TOKEN_NORMAL};
use crate::{deadlock, util};
use core::{
    fmt, ptr,
    sync::atomic::{AtomicPtr, Ordering},
};
use lock_api::RawMutex as RawMutex_;
use parking_lot_core::{self, ParkResult, RequeueOp, UnparkResult, DEFAULT_PARK_TOKEN};
use std::ops::DerefMut;
use std::time::{Duration, Instant};

/// A type indicating whether a timed wait on a condition variable returned
/// due to a time out or not.
#[derive(Debug, PartialEq, Eq, Copy, Clone)]
pub struct WaitTimeoutResult(bool);

impl WaitTimeoutResult {
    /// Returns whether the wait was known to have timed out.
    #[inline]
    pub fn timed_out(self) -> bool {
        self.0
    }
}

/// A Condition Variable
///
/// Condition variables represent the ability to block a thread such that it
/// consumes no CPU time while waiting for an event to occur. Condition
/// variables are typically associated with a boolean predicate (a condition)
/// and a mutex. The predicate is always verified inside of the mutex before
/// determining that thread must block.
///
/// Note that this module places one additional restriction over the system
/// condition variables: each condvar can be used with only one mutex at a
/// time. Any attempt to use multiple mutexes on the same condition variable
/// simultaneously will result in a runtime panic. However it is possible to
/// switch to a different mutex if there are no threads currently waiting on
/// the condition variable.
///
/// # Differences from the standard library `Condvar`
///
/// - No spurious wakeups: A wait will only return a non-timeout result if it
///   was woken up by `notify_one` or `notify_all`.
/// - `Condvar::notify_all` will only wake up a single thread, the rest are
///   requeued to wait for the `Mutex` to be unlocked by the thread that was
///   woken up.
/// - Only requires 1 word of space, whereas the standard library boxes the
///   `Condvar` due to platform limitations.
/// - Can be statically constructed.
/// - Does not require any drop glue when dropped.
/// - Inline fast path for the uncontended case.
///
/// # Examples
///
/// ```
/// use parking_lot::{Mutex, Condvar};
/// use std::sync::Arc;
/// use std::thread;
///
/// let pair = Arc::new((Mutex::new(false), Condvar::new()));
/// let pair2 = pair.clone();
///
/// // Inside of our lock, spawn a new thread, and then wait for it to start
/// thread::spawn(move|| {
///     let &(ref lock, ref cvar) = &*pair2;
///     let mut started = lock.lock();
///     *started = true;
///     cvar.notify_one();
/// });
///
/// // wait for the thread to start up
/// let &(ref lock, ref cvar) = &*pair;
/// let mut started = lock.lock();
/// if !*started {
///     cvar.wait(&mut started);
/// }
/// // Note that we used an if instead of a while loop above. This is only
/// // possible because parking_lot's Condvar will never spuriously wake up.
/// // This means that wait() will only return after notify_one or notify_all is
/// // called.
/// ```
pub struct Condvar {
    state: AtomicPtr<RawMutex>,
}

impl Condvar {
    /// Creates a new condition variable which is ready to be waited on and
    /// notified.
    #[inline]
    pub const fn new() -> Condvar {
        Condvar {
            state: AtomicPtr::new(ptr::null_mut()),
        }
    }

    /// Wakes up one blocked thread on this condvar.
    ///
    /// Returns whether a thread was woken up.
    ///
    /// If there is a blocked thread on this condition variable, then it will
    /// be woken up from its call to `wait` or `wait_timeout`. Calls to
    /// `notify_one` are not buffered in any way.
    ///
    /// To wake up all threads, see `notify_all()`.
    ///
    /// # Examples
    ///
    /// ```
    /// use parking_lot::Condvar;
    ///
    /// let condvar = Condvar::new();
    ///
    /// // do something with condvar, share it with other threads
    ///
    /// if !condvar.notify_one() {
    ///     println!("Nobody was listening for this.");
    /// }
    /// ```
    #[inline]
    pub fn notify_one(&self) -> bool {
        // Nothing to do if there are no waiting threads
        let state = self.state.load(Ordering::Relaxed);
        if state.is_null() {
            return false;
        }

        self.notify_one_slow(state)
    }

    #[cold]
    fn notify_one_slow(&self, mutex: *mut RawMutex) -> bool {
        // Unpark one thread and requeue the rest onto the mutex
        let from = self as *const _ as usize;
        let to = mutex as usize;
        let validate = || {
            // Make sure that our atomic state still points to the same
            // mutex. If not then it means that all threads on the current
            // mutex were woken up and a new waiting thread switched to a
            // different mutex. In that case we can get away with doing
            // nothing.
            if self.state.load(Ordering::Relaxed) != mutex {
                return RequeueOp::Abort;
            }

            // Unpark one thread if the mutex is unlocked, otherwise just
            // requeue everything to the mutex. This is safe to do here
            // since unlocking the mutex when the parked bit is set requires
            // locking the queue. There is the possibility of a race if the
            // mutex gets locked after we check, but that doesn't matter in
            // this case.
            if unsafe { (*mutex).mark_parked_if_locked() } {
                RequeueOp::RequeueOne
            } else {
                RequeueOp::UnparkOne
            }
        };
        let callback = |_op, result: UnparkResult| {
            // Clear our state if there are no more waiting threads
            if !result.have_more_threads {
                self.state.store(ptr::null_mut(), Ordering::Relaxed);
            }
            TOKEN_NORMAL
        };
        let res = unsafe { parking_lot_core::unpark_requeue(from, to, validate, callback) };

        res.unparked_threads + res.requeued_threads != 0
    }

    /// Wakes up all blocked threads on this condvar.
    ///
    /// Returns the number of threads woken up.
    ///
    /// This method will ensure that any current waiters on the condition
    /// variable are awoken. Calls to `notify_all()` are not buffered in any
    /// way.
    ///
    /// To wake up only one thread, see `notify_one()`.
    #[inline]
    pub fn notify_all(&self) -> usize {
        // Nothing to do if there are no waiting threads
        let state = self.state.load(Ordering::Relaxed);
        if state.is_null() {
            return 0;
        }

        self.notify_all_slow(state)
    }

    #[cold]
    fn notify_all_slow(&self, mutex: *mut RawMutex) -> usize {
        // Unpark one thread and requeue the rest onto the mutex
        let from = self as *const _ as usize;
        let to = mutex as usize;
        let validate = || {
            // Make sure that our atomic state still points to the same
            // mutex. If not then it means that all threads on the current
            // mutex were woken up and a new waiting thread switched to a
            // different mutex. In that case we can get away with doing
            // nothing.
            if self.state.load(Ordering::Relaxed) != mutex {
                return RequeueOp::Abort;
            }

            // Clear our state since we are going to unpark or requeue all
            // threads.
            self.state.store(ptr::null_mut(), Ordering::Relaxed);

            // Unpark one thread if the mutex is unlocked, otherwise just
            // requeue everything to the mutex. This is safe to do here
            // since unlocking the mutex when the parked bit is set requires
            // locking the queue. There is the possibility of a race if the
            // mutex gets locked after we check, but that doesn't matter in
            // this case.
            if unsafe { (*mutex).mark_parked_if_locked() } {
                RequeueOp::RequeueAll
            } else {
                RequeueOp::UnparkOneRequeueRest
            }
        };
        let callback = |op, result: UnparkResult| {
            // If we requeued threads to the mutex, mark it as having
            // parked threads. The RequeueAll case is already handled above.
            if op == RequeueOp::UnparkOneRequeueRest && result.requeued_threads != 0 {
                unsafe { (*mutex).mark_parked() };
            }
            TOKEN_NORMAL
        };
        let res = unsafe { parking_lot_core::unpark_requeue(from, to, validate, callback) };

        res.unparked_threads + res.requeued_threads
    }

    /// Blocks the current thread until this condition variable receives a
    /// notification.
    ///
    /// This function will atomically unlock the mutex specified (represented by
    /// `mutex_guard`) and block the current thread. This means that any calls
    /// to `notify_*()` which happen logically after the mutex is unlocked are
    /// candidates to wake this thread up. When this function call returns, the
    /// lock specified will have been re-acquired.
    ///
    /// # Panics
    ///
    /// This function will panic if another thread is waiting on the `Condvar`
    /// with a different `Mutex` object.
    #[inline]
    pub fn wait<T: ?Sized>(&self, mutex_guard: &mut MutexGuard<'_, T>) {
        self.wait_until_internal(unsafe { MutexGuard::mutex(mutex_guard).raw() }, None);
    }

    /// Waits on this condition variable for a notification, timing out after
    /// the specified time instant.
    ///
    /// The semantics of this function are equivalent to `wait()` except that
    /// the thread will be blocked roughly until `timeout` is reached. This
    /// method should not be used for precise timing due to anomalies such as
    /// preemption or platform differences that may not cause the maximum
    /// amount of time waited to be precisely `timeout`.
    ///
    /// Note that the best effort is made to ensure that the time waited is
    /// measured with a monotonic clock, and not affected by the changes made to
    /// the system time.
    ///
    /// The returned `WaitTimeoutResult` value indicates if the timeout is
    /// known to have elapsed.
    ///
    /// Like `wait`, the lock specified will be re-acquired when this function
    /// returns, regardless of whether the timeout elapsed or not.
    ///
    /// # Panics
    ///
    /// This function will panic if another thread is waiting on the `Condvar`
    /// with a different `Mutex` object.
    #[inline]
    pub fn wait_until<T: ?Sized>(
        &self,
        mutex_guard: &mut MutexGuard<'_, T>,
        timeout: Instant,
    ) -> WaitTimeoutResult {
        self.wait_until_internal(
            unsafe { MutexGuard::mutex(mutex_guard).raw() },
            Some(timeout),
        )
    }

    // This is a non-generic function to reduce the monomorphization cost of
    // using `wait_until`.
    fn wait_until_internal(&self, mutex: &RawMutex, timeout: Option<Instant>) -> WaitTimeoutResult {
        let result;
        let mut bad_mutex = false;
        let mut requeued = false;
        {
            let addr = self as *const _ as usize;
            let lock_addr = mutex as *const _ as *mut _;
            let validate = || {
                // Ensure we don't use two different mutexes with the same
                // Condvar at the same time. This is done while locked to
                // avoid races with notify_one
                let state = self.state.load(Ordering::Relaxed);
                if state.is_null() {
                    self.state.store(lock_addr, Ordering::Relaxed);
                } else if state != lock_addr {
                    bad_mutex = true;
                    return false;
                }
                true
            };
            let before_sleep = || {
                // Unlock the mutex before sleeping...
                unsafe { mutex.unlock() };
            };
            let timed_out = |k, was_last_thread| {
                // If we were requeued to a mutex, then we did not time out.
                // We'll just park ourselves on the mutex again when we try
                // to lock it later.
                requeued = k != addr;

                // If we were the last thread on the queue then we need to
                // clear our state. This is normally done by the
                // notify_{one,all} functions when not timing out.
                if !requeued && was_last_thread {
                    self.state.store(ptr::null_mut(), Ordering::Relaxed);
                }
            };
            result = unsafe {
                parking_lot_core::park(
                    addr,
                    validate,
                    before_sleep,
                    timed_out,
                    DEFAULT_PARK_TOKEN,
                    timeout,
                )
            };
        }

        // Panic if we tried to use multiple mutexes with a Condvar. Note
        // that at this point the MutexGuard is still locked. It will be
        // unlocked by the unwinding logic.
        if bad_mutex {
            panic!("attempted to use a condition variable with more than one mutex");
        }

        // ... and re-lock it once we are done sleeping
        if result == ParkResult::Unparked(TOKEN_HANDOFF) {
            unsafe { deadlock::acquire_resource(mutex as *const _ as usize) };
        } else {
            mutex.lock();
        }

        WaitTimeoutResult(!(result.is_unparked() || requeued))
    }

    /// Waits on this condition variable for a notification, timing out after a
    /// specified duration.
    ///
    /// The semantics of this function are equivalent to `wait()` except that
    /// the thread will be blocked for roughly no longer than `timeout`. This
    /// method should not be used for precise timing due to anomalies such as
    /// preemption or platform differences that may not cause the maximum
    /// amount of time waited to be precisely `timeout`.
    ///
    /// Note that the best effort is made to ensure that the time waited is
    /// measured with a monotonic clock, and not affected by the changes made to
    /// the system time.
    ///
    /// The returned `WaitTimeoutResult` value indicates if the timeout is
    /// known to have elapsed.
    ///
    /// Like `wait`, the lock specified will be re-acquired when this function
    /// returns, regardless of whether the timeout elapsed or not.
    #[inline]
    pub fn wait_for<T: ?Sized>(
        &self,
        mutex_guard: &mut MutexGuard<'_, T>,
        timeout: Duration,
    ) -> WaitTimeoutResult {
        let deadline = util::to_deadline(timeout);
        self.wait_until_internal(unsafe { MutexGuard::mutex(mutex_guard).raw() }, deadline)
    }

    #[inline]
    fn wait_while_until_internal<T, F>(
        &self,
        mutex_guard: &mut MutexGuard<'_, T>,
        mut condition: F,
        timeout: Option<Instant>,
    ) -> WaitTimeoutResult
    where
        T: ?Sized,
        F: FnMut(&mut T) -> bool,
    {
        let mut result = WaitTimeoutResult(false);

        while !result.timed_out() && condition(mutex_guard.deref_mut()) {
            result =
                self.wait_until_internal(unsafe { MutexGuard::mutex(mutex_guard).raw() }, timeout);
        }

        result
    }
    /// Blocks the current thread until this condition variable receives a
    /// notification. If the provided condition evaluates to `false`, then the
    /// thread is no longer blocked and the operation is completed. If the
    /// condition evaluates to `true`, then the thread is blocked again and
    /// waits for another notification before repeating this process.
    ///
    /// This function will atomically unlock the mutex specified (represented by
    /// `mutex_guard`) and block the current thread. This means that any calls
    /// to `notify_*()` which happen logically after the mutex is unlocked are
    /// candidates to wake this thread up. When this function call returns, the
    /// lock specified will have been re-acquired.
    ///
    /// # Panics
    ///
    /// This function will panic if another thread is waiting on the `Condvar`
    /// with a different `Mutex` object.
    #[inline]
    pub fn wait_while<T, F>(&self, mutex_guard: &mut MutexGuard<'_, T>, condition: F)
    where
        T: ?Sized,
        F: FnMut(&mut T) -> bool,
    {
        self.wait_while_until_internal(mutex_guard, condition, None);
    }

    /// Waits on this condition variable for a notification, timing out after
    /// the specified time instant. If the provided condition evaluates to
    /// `false`, then the thread is no longer blocked and the operation is
    /// completed. If the condition evaluates to `true`, then the thread is
    /// blocked again and waits for another notification before repeating
    /// this process.
    ///
    /// The semantics of this function are equivalent to `wait()` except that
    /// the thread will be blocked roughly until `timeout` is reached. This
    /// method should not be used for precise timing due to anomalies such as
    /// preemption or platform differences that may not cause the maximum
    /// amount of time waited to be precisely `timeout`.
    ///
    /// Note that the best effort is made to ensure that the time waited is
    /// measured with a monotonic clock, and not affected by the changes made to
    /// the system time.
    ///
    /// The returned `WaitTimeoutResult` value indicates if the timeout is
    /// known to have elapsed.
    ///
    /// Like `wait`, the lock specified will be re-acquired when this function
    /// returns, regardless of whether the timeout elapsed or not.
    ///
    /// # Panics
    ///
    /// This function will panic if another thread is waiting on the `Condvar`
    /// with a different `Mutex` object.
    #[inline]
    pub fn wait_while_until<T, F>(
        &self,
        mutex_guard: &mut MutexGuard<'_, T>,
        condition: F,
        timeout: Instant,
    ) -> WaitTimeoutResult
    where
        T: ?Sized,
        F: FnMut(&mut T) -> bool,
    {
        self.wait_while_until_internal(mutex_guard, condition, Some(timeout))
    }

    /// Waits on this condition variable for a notification, timing out after a
    /// specified duration. If the provided condition evaluates to `false`,
    /// then the thread is no longer blocked and the operation is completed.
    /// If the condition evaluates to `true`, then the thread is blocked again
    /// and waits for another notification before repeating this process.
    ///
    /// The semantics of this function are equivalent to `wait()` except that
    /// the thread will be blocked for roughly no longer than `timeout`. This
    /// method should not be used for precise timing due to anomalies such as
    /// preemption or platform differences that may not cause the maximum
    /// amount of time waited to be precisely `timeout`.
    ///
    /// Note that the best effort is made to ensure that the time waited is
    /// measured with a monotonic clock, and not affected by the changes made to
    /// the system time.
    ///
    /// The returned `WaitTimeoutResult` value indicates if the timeout is
    /// known to have elapsed.
    ///
    /// Like `wait`, the lock specified will be re-acquired when this function
    /// returns, regardless of whether the timeout elapsed or not.
    #[inline]
    pub fn wait_while_for<T: ?Sized, F>(
        &self,
        mutex_guard: &mut MutexGuard<'_, T>,
        condition: F,
        timeout: Duration,
    ) -> WaitTimeoutResult
    where
        F: FnMut(&mut T) -> bool,
    {
        let deadline = util::to_deadline(timeout);
        self.wait_while_until_internal(mutex_guard, condition, deadline)
    }
}

impl Default for Condvar {
    #[inline]
    fn default() -> Condvar {
        Condvar::new()
    }
}

impl fmt::Debug for Condvar {
    fn fmt(&self, f: &mut fmt::Formatter<'_>) -> fmt::Result {
        f.pad("Condvar { .. }")
    }
}

#[cfg(test)]
mod tests {
    use crate::{Condvar, Mutex, MutexGuard};
    use std::sync::mpsc::channel;
    use std::sync::Arc;
    use std::thread;
    use std::thread::sleep;
    use std::thread::JoinHandle;
    use std::time::Duration;
    use std::time::Instant;

    #[test]
    fn smoke() {
        let c = Condvar::new();
        c.notify_one();
        c.notify_all();
    }

    #[test]
    fn notify_one() {
        let m = Arc::new(Mutex::new(()));
        let m2 = m.clone();
        let c = Arc::new(Condvar::new());
        let c2 = c.clone();

        let mut g = m.lock();
        let _t = thread::spawn(move || {
            let _g = m2.lock();
            c2.notify_one();
        });
        c.wait(&mut g);
    }

    #[test]
    fn notify_all() {
        const N: usize = 10;

        let data = Arc::new((Mutex::new(0), Condvar::new()));
        let (tx, rx) = channel();
        for _ in 0..N {
            let data = data.clone();
            let tx = tx.clone();
            thread::spawn(move || {
                let (lock, cond) = &*data;
                let mut cnt = lock.lock();
                *cnt += 1;
                if *cnt == N {
                    tx.send(()).unwrap();
                }
                while *cnt != 0 {
                    cond.wait(&mut cnt);
                }
                tx.send(()).unwrap();
            });
        }
        drop(tx);

        let (lock, cond) = &*data;
        rx.recv().unwrap();
        let mut cnt = lock.lock();
        *cnt = 0;
        cond.notify_all();
        drop(cnt);

        for _ in 0..N {
            rx.recv().unwrap();
        }
    }

    #[test]
    fn notify_one_return_true() {
        let m = Arc::new(Mutex::new(()));
        let m2 = m.clone();
        let c = Arc::new(Condvar::new());
        let c2 = c.clone();

        let mut g = m.lock();
        let _t = thread::spawn(move || {
            let _g = m2.lock();
            assert!(c2.notify_one());
        });
        c.wait(&mut g);
    }

    #[test]
    fn notify_one_return_false() {
        let m = Arc::new(Mutex::new(()));
        let c = Arc::new(Condvar::new());

        let _t = thread::spawn(move || {
            let _g = m.lock();
            assert!(!c.notify_one());
        });
    }

    #[test]
    fn notify_all_return() {
        const N: usize = 10;

        let data = Arc::new((Mutex::new(0), Condvar::new()));
        let (tx, rx) = channel();
        for _ in 0..N {
            let data = data.clone();
            let tx = tx.clone();
            thread::spawn(move || {
                let (lock, cond) = &*data;
                let mut cnt = lock.lock();
                *cnt += 1;
                if *cnt == N {
                    tx.send(()).unwrap();
                }
                while *cnt != 0 {
                    cond.wait(&mut cnt);
                }
                tx.send(()).unwrap();
            });
        }
        drop(tx);

        let (lock, cond) = &*data;
        rx.recv().unwrap();
        let mut cnt = lock.lock();
        *cnt = 0;
        assert_eq!(cond.notify_all(), N);
        drop(cnt);

        for _ in 0..N {
            rx.recv().unwrap();
        }

        assert_eq!(cond.notify_all(), 0);
    }

    #[test]
    fn wait_for() {
        let m = Arc::new(Mutex::new(()));
        let m2 = m.clone();
        let c = Arc::new(Condvar::new());
        let c2 = c.clone();

        let mut g = m.lock();
        let no_timeout = c.wait_for(&mut g, Duration::from_millis(1));
        assert!(no_timeout.timed_out());

        let _t = thread::spawn(move || {
            let _g = m2.lock();
            c2.notify_one();
        });
        let timeout_res = c.wait_for(&mut g, Duration::from_secs(u64::max_value()));
        assert!(!timeout_res.timed_out());

        drop(g);
    }

    #[test]
    fn wait_until() {
        let m = Arc::new(Mutex::new(()));
        let m2 = m.clone();
        let c = Arc::new(Condvar::new());
        let c2 = c.clone();

        let mut g = m.lock();
        let no_timeout = c.wait_until(&mut g, Instant::now() + Duration::from_millis(1));
        assert!(no_timeout.timed_out());
        let _t = thread::spawn(move || {
            let _g = m2.lock();
            c2.notify_one();
        });
        let timeout_res = c.wait_until(
            &mut g,
            Instant::now() + Duration::from_millis(u32::max_value() as u64),
        );
        assert!(!timeout_res.timed_out());
        drop(g);
    }

    fn spawn_wait_while_notifier(
        mutex: Arc<Mutex<u32>>,
        cv: Arc<Condvar>,
        num_iters: u32,
        timeout: Option<Instant>,
    ) -> JoinHandle<()> {
        thread::spawn(move || {
            for epoch in 1..=num_iters {
                // spin to wait for main test thread to block
                // before notifying it to wake back up and check
                // its condition.
                let mut sleep_backoff = Duration::from_millis(1);
                let _mutex_guard = loop {
                    let mutex_guard = mutex.lock();

                    if let Some(timeout) = timeout {
                        if Instant::now() >= timeout {
                            return;
                        }
                    }

                    if *mutex_guard == epoch {
                        break mutex_guard;
                    }

                    drop(mutex_guard);

                    // give main test thread a good chance to
                    // acquire the lock before this thread does.
                    sleep(sleep_backoff);
                    sleep_backoff *= 2;
                };

                cv.notify_one();
            }
        })
    }

    #[test]
    fn wait_while_until_internal_does_not_wait_if_initially_false() {
        let mutex = Arc::new(Mutex::new(0));
        let cv = Arc::new(Condvar::new());

        let condition = |counter: &mut u32| {
            *counter += 1;
            false
        };

        let mut mutex_guard = mutex.lock();
        let timeout_result = cv.wait_while_until_internal(&mut mutex_guard, condition, None);

        assert!(!timeout_result.timed_out());
        assert!(*mutex_guard == 1);
    }

    #[test]
    fn wait_while_until_internal_times_out_before_false() {
        let mutex = Arc::new(Mutex::new(0));
        let cv = Arc::new(Condvar::new());

        let num_iters = 3;
        let condition = |counter: &mut u32| {
            *counter += 1;
            true
        };

        let mut mutex_guard = mutex.lock();
        let timeout = Some(Instant::now() + Duration::from_millis(500));
        let handle = spawn_wait_while_notifier(mutex.clone(), cv.clone(), num_iters, timeout);

        let timeout_result = cv.wait_while_until_internal(&mut mutex_guard, condition, timeout);

        assert!(timeout_result.timed_out());
        assert!(*mutex_guard == num_iters + 1);

        // prevent deadlock with notifier
        drop(mutex_guard);
        handle.join().unwrap();
    }

    #[test]
    fn wait_while_until_internal() {
        let mutex = Arc::new(Mutex::new(0));
        let cv = Arc::new(Condvar::new());

        let num_iters = 4;

        let condition = |counter: &mut u32| {
            *counter += 1;
            *counter <= num_iters
        };

        let mut mutex_guard = mutex.lock();
        let handle = spawn_wait_while_notifier(mutex.clone(), cv.clone(), num_iters, None);

        let timeout_result = cv.wait_while_until_internal(&mut mutex_guard, condition, None);

        assert!(!timeout_result.timed_out());
        assert!(*mutex_guard == num_iters + 1);

        let timeout_result = cv.wait_while_until_internal(&mut mutex_guard, condition, None);
        handle.join().unwrap();

        assert!(!timeout_result.timed_out());
        assert!(*mutex_guard == num_iters + 2);
    }

    #[test]
    #[should_panic]
    fn two_mutexes() {
        let m = Arc::new(Mutex::new(()));
        let m2 = m.clone();
        let m3 = Arc::new(Mutex::new(()));
        let c = Arc::new(Condvar::new());
        let c2 = c.clone();

        // Make sure we don't leave the child thread dangling
        struct PanicGuard<'a>(&'a Condvar);
        impl<'a> Drop for PanicGuard<'a> {
            fn drop(&mut self) {
                self.0.notify_one();
            }
        }

        let (tx, rx) = channel();
        let g = m.lock();
        let _t = thread::spawn(move || {
            let mut g = m2.lock();
            tx.send(()).unwrap();
            c2.wait(&mut g);
        });
        drop(g);
        rx.recv().unwrap();
        let _g = m.lock();
        let _guard = PanicGuard(&c);
        c.wait(&mut m3.lock());
    }

    #[test]
    fn two_mutexes_disjoint() {
        let m = Arc::new(Mutex::new(()));
        let m2 = m.clone();
        let m3 = Arc::new(Mutex::new(()));
        let c = Arc::new(Condvar::new());
        let c2 = c.clone();

        let mut g = m.lock();
        let _t = thread::spawn(move || {
            let _g = m2.lock();
            c2.notify_one();
        });
        c.wait(&mut g);
        drop(g);

        let _ = c.wait_for(&mut m3.lock(), Duration::from_millis(1));
    }

    #[test]
    fn test_debug_condvar() {
        let c = Condvar::new();
        assert_eq!(format!("{:?}", c), "Condvar { .. }");
    }

    #[test]
    fn test_condvar_requeue() {
        let m = Arc::new(Mutex::new(()));
        let m2 = m.clone();
        let c = Arc::new(Condvar::new());
        let c2 = c.clone();
        let t = thread::spawn(move || {
            let mut g = m2.lock();
            c2.wait(&mut g);
        });

        let mut g = m.lock();
        while !c.notify_one() {
            // Wait for the thread to get into wait()
            MutexGuard::bump(&mut g);
            // Yield, so the other thread gets a chance to do something.
            // (At least Miri needs this, because it doesn't preempt threads.)
            thread::yield_now();
        }
        // The thread should have been requeued to the mutex, which we wake up now.
        drop(g);
        t.join().unwrap();
    }

    #[test]
    fn test_issue_129() {
        let locks = Arc::new((Mutex::new(()), Condvar::new()));

        let (tx, rx) = channel();
        for _ in 0..4 {
            let locks = locks.clone();
            let tx = tx.clone();
            thread::spawn(move || {
                let mut guard = locks.0.lock();
                locks.1.wait(&mut guard);
                locks.1.wait_for(&mut guard, Duration::from_millis(1));
                locks.1.notify_one();
                tx.send(()).unwrap();
            });
        }

        thread::sleep(Duration::from_millis(100));
        locks.1.notify_one();

        for _ in 0..4 {
            assert_eq!(rx.recv_timeout(Duration::from_millis(500)), Ok(()));
        }
    }
}

/// This module contains an integration test that is heavily inspired from WebKit's own integration
/// tests for it's own Condvar.
#[cfg(test)]
mod webkit_queue_test {
    use crate::{Condvar, Mutex, MutexGuard};
    use std::{collections::VecDeque, sync::Arc, thread, time::Duration};

    #[derive(Clone, Copy)]
    enum Timeout {
        Bounded(Duration),
        Forever,
    }

    #[derive(Clone, Copy)]
    enum NotifyStyle {
        One,
        All,
    }

    struct Queue {
        items: VecDeque<usize>,
        should_continue: bool,
    }

    impl Queue {
        fn new() -> Self {
            Self {
                items: VecDeque::new(),
                should_continue: true,
            }
        }
    }

    fn wait<T: ?Sized>(
        condition: &Condvar,
        lock: &mut MutexGuard<'_, T>,
        predicate: impl Fn(&mut MutexGuard<'_, T>) -> bool,
        timeout: &Timeout,
    ) {
        while !predicate(lock) {
            match timeout {
                Timeout::Forever => condition.wait(lock),
                Timeout::Bounded(bound) => {
                    condition.wait_for(lock, *bound);
                }
            }
        }
    }

    fn notify(style: NotifyStyle, condition: &Condvar, should_notify: bool) {
        match style {
            NotifyStyle::One => {
                condition.notify_one();
            }
            NotifyStyle::All => {
                if should_notify {
                    condition.notify_all();
                }
            }
        }
    }

    fn run_queue_test(
        num_producers: usize,
        num_consumers: usize,
        max_queue_size: usize,
        messages_per_producer: usize,
        notify_style: NotifyStyle,
        timeout: Timeout,
        delay: Duration,
    ) {
        let input_queue = Arc::new(Mutex::new(Queue::new()));
        let empty_condition = Arc::new(Condvar::new());
        let full_condition = Arc::new(Condvar::new());

        let output_vec = Arc::new(Mutex::new(vec![]));

        let consumers = (0..num_consumers)
            .map(|_| {
                consumer_thread(
                    input_queue.clone(),
                    empty_condition.clone(),
                    full_condition.clone(),
                    timeout,
                    notify_style,
                    output_vec.clone(),
                    max_queue_size,
                )
            })
            .collect::<Vec<_>>();
        let producers = (0..num_producers)
            .map(|_| {
                producer_thread(
                    messages_per_producer,
                    input_queue.clone(),
                    empty_condition.clone(),
                    full_condition.clone(),
                    timeout,
                    notify_style,
                    max_queue_size,
                )
            })
            .collect::<Vec<_>>();

        thread::sleep(delay);

        for producer in producers.into_iter() {
            producer.join().expect("Producer thread panicked");
        }

        {
            let mut input_queue = input_queue.lock();
            input_queue.should_continue = false;
        }
        empty_condition.notify_all();

        for consumer in consumers.into_iter() {
            consumer.join().expect("Consumer thread panicked");
        }

        let mut output_vec = output_vec.lock();
        assert_eq!(output_vec.len(), num_producers * messages_per_producer);
        output_vec.sort();
        for msg_idx in 0..messages_per_producer {
            for producer_idx in 0..num_producers {
                assert_eq!(msg_idx, output_vec[msg_idx * num_producers + producer_idx]);
            }
        }
    }

    fn consumer_thread(
        input_queue: Arc<Mutex<Queue>>,
        empty_condition: Arc<Condvar>,
        full_condition: Arc<Condvar>,
        timeout: Timeout,
        notify_style: NotifyStyle,
        output_queue: Arc<Mutex<Vec<usize>>>,
        max_queue_size: usize,
    ) -> thread::JoinHandle<()> {
        thread::spawn(move || loop {
            let (should_notify, result) = {
                let mut queue = input_queue.lock();
                wait(
                    &empty_condition,
                    &mut queue,
                    |state| -> bool { !state.items.is_empty() || !state.should_continue },
                    &timeout,
                );
                if queue.items.is_empty() && !queue.should_continue {
                    return;
                }
                let should_notify = queue.items.len() == max_queue_size;
                let result = queue.items.pop_front();
                std::mem::drop(queue);
                (should_notify, result)
            };
            notify(notify_style, &full_condition, should_notify);

            if let Some(result) = result {
                output_queue.lock().push(result);
            }
        })
    }

    fn producer_thread(
        num_messages: usize,
        queue: Arc<Mutex<Queue>>,
        empty_condition: Arc<Condvar>,
        full_condition: Arc<Condvar>,
        timeout: Timeout,
        notify_style: NotifyStyle,
        max_queue_size: usize,
    ) -> thread::JoinHandle<()> {
        thread::spawn(move || {
            for message in 0..num_messages {
                let should_notify = {
                    let mut queue = queue.lock();
                    wait(
                        &full_condition,
                        &mut queue,
                        |state| state.items.len() < max_queue_size,
                        &timeout,
                    );
                    let should_notify = queue.items.is_empty();
                    queue.items.push_back(message);
                    std::mem::drop(queue);
                    should_notify
                };
                notify(notify_style, &empty_condition, should_notify);
            }
        })
    }

    macro_rules! run_queue_tests {
        ( $( $name:ident(
            num_producers: $num_producers:expr,
            num_consumers: $num_consumers:expr,
            max_queue_size: $max_queue_size:expr,
            messages_per_producer: $messages_per_producer:expr,
            notification_style: $notification_style:expr,
            timeout: $timeout:expr,
            delay_seconds: $delay_seconds:expr);
        )* ) => {
            $(#[test]
            fn $name() {
                let delay = Duration::from_secs($delay_seconds);
                run_queue_test(
                    $num_producers,
                    $num_consumers,
                    $max_queue_size,
                    $messages_per_producer,
                    $notification_style,
                    $timeout,
                    delay,
                    );
            })*
        };
    }

    run_queue_tests! {
        sanity_check_queue(
            num_producers: 1,
            num_consumers: 1,
            max_queue_size: 1,
            messages_per_producer: 100_000,
            notification_style: NotifyStyle::All,
            timeout: Timeout::Bounded(Duration::from_secs(1)),
            delay_seconds: 0
        );
        sanity_check_queue_timeout(
            num_producers: 1,
            num_consumers: 1,
            max_queue_size: 1,
            messages_per_producer: 100_000,
            notification_style: NotifyStyle::All,
            timeout: Timeout::Forever,
            delay_seconds: 0
        );
        new_test_without_timeout_5(
            num_producers: 1,
            num_consumers: 5,
            max_queue_size: 1,
            messages_per_producer: 100_000,
            notification_style: NotifyStyle::All,
            timeout: Timeout::Forever,
            delay_seconds: 0
        );
        one_producer_one_consumer_one_slot(
            num_producers: 1,
            num_consumers: 1,
            max_queue_size: 1,
            messages_per_producer: 100_000,
            notification_style: NotifyStyle::All,
            timeout: Timeout::Forever,
            delay_seconds: 0
        );
        one_producer_one_consumer_one_slot_timeout(
            num_producers: 1,
            num_consumers: 1,
            max_queue_size: 1,
            messages_per_producer: 100_000,
            notification_style: NotifyStyle::All,
            timeout: Timeout::Forever,
            delay_seconds: 1
        );
        one_producer_one_consumer_hundred_slots(
            num_producers: 1,
            num_consumers: 1,
            max_queue_size: 100,
            messages_per_producer: 1_000_000,
            notification_style: NotifyStyle::All,
            timeout: Timeout::Forever,
            delay_seconds: 0
        );
        ten_producers_one_consumer_one_slot(
            num_producers: 10,
            num_consumers: 1,
            max_queue_size: 1,
            messages_per_producer: 10000,
            notification_style: NotifyStyle::All,
            timeout: Timeout::Forever,
            delay_seconds: 0
        );
        ten_producers_one_consumer_hundred_slots_notify_all(
            num_producers: 10,
            num_consumers: 1,
            max_queue_size: 100,
            messages_per_producer: 10000,
            notification_style: NotifyStyle::All,
            timeout: Timeout::Forever,
            delay_seconds: 0
        );
        ten_producers_one_consumer_hundred_slots_notify_one(
            num_producers: 10,
            num_consumers: 1,
            max_queue_size: 100,
            messages_per_producer: 10000,
            notification_style: NotifyStyle::One,
            timeout: Timeout::Forever,
            delay_seconds: 0
        );
        one_producer_ten_consumers_one_slot(
            num_producers: 1,
            num_consumers: 10,
            max_queue_size: 1,
            messages_per_producer: 10000,
            notification_style: NotifyStyle::All,
            timeout: Timeout::Forever,
            delay_seconds: 0
        );
        one_producer_ten_consumers_hundred_slots_notify_all(
            num_producers: 1,
            num_consumers: 10,
            max_queue_size: 100,
            messages_per_producer: 100_000,
            notification_style: NotifyStyle::All,
            timeout: Timeout::Forever,
            delay_seconds: 0
        );
        one_producer_ten_consumers_hundred_slots_notify_one(
            num_producers: 1,
            num_consumers: 10,
            max_queue_size: 100,
            messages_per_producer: 100_000,
            notification_style: NotifyStyle::One,
            timeout: Timeout::Forever,
            delay_seconds: 0
        );
        ten_producers_ten_consumers_one_slot(
            num_producers: 10,
            num_consumers: 10,
            max_queue_size: 1,
            messages_per_producer: 50000,
            notification_style: NotifyStyle::All,
            timeout: Timeout::Forever,
            delay_seconds: 0
        );
        ten_producers_ten_consumers_hundred_slots_notify_all(
            num_producers: 10,
            num_consumers: 10,
            max_queue_size: 100,
            messages_per_producer: 50000,
            notification_style: NotifyStyle::All,
            timeout: Timeout::Forever,
            delay_seconds: 0
        );
        ten_producers_ten_consumers_hundred_slots_notify_one(
            num_producers: 10,
            num_consumers: 10,
            max_queue_size: 100,
            messages_per_producer: 50000,
            notification_style: NotifyStyle::One,
            timeout: Timeout::Forever,
            delay_seconds: 0
        );
    }
}
