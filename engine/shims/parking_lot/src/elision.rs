// Copyright 2016 Amanieu d'Antras
//
// Licensed under the Apache License, Version 2.0, <LICENSE-APACHE or
// http://apache.org/licenses/LICENSE-2.0> or the MIT license <LICENSE-MIT or
// http://opensource.org/licenses/MIT>, at your option. This file may not be
// copied, modified, or distributed except according to those terms.

use std::sync::atomic::AtomicUsize;

// Extension trait to add lock elision primitives to atomic types
pub trait AtomicElisionExt {
    type IntType;

    // Perform a compare_exchange and start a transaction
    fn elision_compare_exchange_acquire(
        &self,
        current: Self::IntType,
        new: Self::IntType,
    ) -> Result<Self::IntType, Self::IntType>;

    // Perform a fetch_sub and end a transaction
    fn elision_fetch_sub_release(&self, val: Self::IntType) -> Self::IntType;
}

// Indicates whether the target architecture supports lock elision
#[inline]
pub fn have_elision() -> bool {
    cfg!(all(
        feature = "hardware-lock-elision",
        not(miri),
        any(target_arch = "x86", target_arch = "x86_64"),
    ))
}

// This implementation is never actually called because it is guarded by
// have_elision().
#[cfg(not(all(
    feature = "hardware-lock-elision",
    not(miri),
    any(target_arch = "x86", target_arch = "x86_64")
)))]
impl AtomicElisionExt for AtomicUsize {
    type IntType = usize;

    #[inline]
    fn elision_compare_exchange_acquire(&self, _: usize, _: usize) -> Result<usize, usize> {
        unreachable!();
    }

    #[inline]
    fn elision_fetch_sub_release(&self, _: usize) -> usize {
        unreachable!();
    }
}

#[cfg(all(
    feature = "hardware-lock-elision",
    not(miri),
    any(target_arch = "x86", target_arch = "x86_64")
))]
impl AtomicElisionExt for AtomicUsize {
    type IntType = usize;

    #[inline]
    fn elision_compare_exchange_acquire(&self, current: usize, new: usize) -> Result<usize, usize> {
        unsafe {
            use core::arch::asm;
            let prev: usize;
            #[cfg(target_pointer_width = "32")]
            asm!(
                "xacquire",
                "lock",
                "cmpxchg [{:e}], {:e}",
                in(reg) self,
                in(reg) new,
                inout("eax") current => prev,
            );
            #[cfg(target_pointer_width = "64")]
            asm!(
                "xacquire",
                "lock",
                "cmpxchg [{}], {}",
                in(reg) self,
                in(reg) new,
                inout("rax") current => prev,
            );
            if prev == current {
                Ok(prev)
            } else {
                Err(prev)
            }
        }
    }

    #[inline]
    fn elision_fetch_sub_release(&self, val: usize) -> usize {
        unsafe {
            use core::arch::asm;
            let prev: usize;
            #[cfg(target_pointer_width = "32")]
            asm!(
                "xrelease",
                "lock",
                "xadd [{:e}], {:e}",
                in(reg) self,
                inout(reg) val.wrapping_neg() => prev,
            );
            #[cfg(target_pointer_width = "64")]
            asm!(
                "xrelease",
                "lock",
                "xadd [{}], {}",
                in(reg) self,
                inout(reg) val.wrapping_neg() => prev,
            );
            prev
        }
    }
}
