// Copyright 2016 Amanieu d'Antras
//
// Licensed under the Apache License, Version 2.0, <LICENSE-APACHE or
// http://apache.org/licenses/LICENSE-2.0> or the MIT license <LICENSE-MIT or
// http://opensource.org/licenses/MIT>, at your option. This file may not be
// copied, modified, or distributed except according to those terms.

use crate::util::UncheckedOptionExt;
use core::{
    fmt, mem,
    sync::atomic::{fence, AtomicU8, Ordering},
};
use parking_lot_core::{self, SpinWait, DEFAULT_PARK_TOKEN, DEFAULT_UNPARK_TOKEN};

const DONE_BIT: u8 = 1;
const POISON_BIT: u8 = 2;
const LOCKED_BIT: u8 = 4;
const PARKED_BIT: u8 = 8;

/// Current state of a `Once`.
#[derive(Copy, Clone, Eq, PartialEq, Debug)]
pub enum OnceState {
    /// A closure has not been executed yet
    New,

    /// A closure was executed but panicked.
    Poisoned,

    /// A thread is currently executing a closure.
    InProgress,

    /// A closure has completed successfully.
    Done,
}

impl OnceState {
    /// Returns whether the associated `Once` has been poisoned.
    ///
    /// Once an initialization routine for a `Once` has panicked it will forever
    /// indicate to future forced initialization routines that it is poisoned.
    #[inline]
    pub fn poisoned(self) -> bool {
        matches!(self, OnceState::Poisoned)
    }

    /// Returns whether the associated `Once` has successfully executed a
    /// closure.
    #[inline]
    pub fn done(self) -> bool {
        matches!(self, OnceState::Done)
    }
}

/// A synchronization primitive which can be used to run a one-time
/// initialization. Useful for one-time initialization for globals, FFI or
/// related functionality.
///
/// # Differences from the standard library `Once`
///
/// - Only requires 1 byte of space, instead of 1 word.
/// - Not required to be `'static`.
/// - Relaxed memory barriers in the fast path, which can significantly improve
///   performance on some architectures.
/// - Efficient handling of micro-contention using adaptive spinning.
///
/// # Examples
///
/// ```
/// use parking_lot::Once;
///
/// static START: Once = Once::new();
///
/// START.call_once(|| {
///     // run initialization here
/// });
/// ```
pub struct Once(AtomicU8);

impl Once {
    /// Creates a new `Once` value.
    #[inline]
    pub const fn new() -> Once {
        Once(AtomicU8::new(0))
    }

    /// Returns the current state of this `Once`.
    #[inline]
    pub fn state(&self) -> OnceState {
        let state = self.0.load(Ordering::Acquire);
        if state & DONE_BIT != 0 {
            OnceState::Done
        } else if state & LOCKED_BIT != 0 {
            OnceState::InProgress
        } else if state & POISON_BIT != 0 {
            OnceState::Poisoned
        } else {
            OnceState::New
        }
    }

    /// Performs an initialization routine once and only once. The given closure
    /// will be executed if this is the first time `call_once` has been called,
    /// and otherwise the routine will *not* be invoked.
    ///
    /// This method will block the calling thread if another initialization
    /// routine is currently running.
    ///
    /// When this function returns, it is guaranteed that some initialization
    /// has run and completed (it may not be the closure specified). It is also
    /// guaranteed that any memory writes performed by the executed closure can
    /// be reliably observed by other threads at this point (there is a
    /// happens-before relation between the closure and code executing after the
    /// return).
    ///
    /// # Examples
    ///
    /// ```
    /// use parking_lot::Once;
    ///
    /// static mut VAL: usize = 0;
    /// static INIT: Once = Once::new();
    ///
    /// // Accessing a `static mut` is unsafe much of the time, but if we do so
    /// // in a synchronized fashion (e.g. write once or read all) then we're
    /// // good to go!
    /// //
    /// // This function will only call `expensive_computation` once, and will
    /// // otherwise always return the value returned from the first invocation.
    /// fn get_cached_val() -> usize {
    ///     unsafe {
    ///         INIT.call_once(|| {
    ///             VAL = expensive_computation();
    ///         });
    ///         VAL
    ///     }
    /// }
    ///
    /// fn expensive_computation() -> usize {
    ///     // ...
    /// # 2
    /// }
    /// ```
    ///
    /// # Panics
    ///
    /// The closure `f` will only be executed once if this is called
    /// concurrently amongst many threads. If that closure panics, however, then
    /// it will *poison* this `Once` instance, causing all future invocations of
    /// `call_once` to also panic.
    #[inline]
    pub fn call_once<F>(&self, f: F)
    where
        F: FnOnce(),
    {
        if self.0.load(Ordering::Acquire) == DONE_BIT {
            return;
        }

        let mut f = Some(f);
        self.call_once_slow(false, &mut |_| unsafe { f.take().unchecked_unwrap()() });
    }

    /// Performs the same function as `call_once` except ignores poisoning.
    ///
    /// If this `Once` has been poisoned (some initialization panicked) then
    /// this function will continue to attempt to call initialization functions
    /// until one of them doesn't panic.
    ///
    /// The closure `f` is yielded a structure which can be used to query the
    /// state of this `Once` (whether initialization has previously panicked or
    /// not).
    #[inline]
    pub fn call_once_force<F>(&self, f: F)
    where
        F: FnOnce(OnceState),
    {
        if self.0.load(Ordering::Acquire) == DONE_BIT {
            return;
        }

        let mut f = Some(f);
        self.call_once_slow(true, &mut |state| unsafe {
            f.take().unchecked_unwrap()(state)
        });
    }

    // This is a non-generic function to reduce the monomorphization cost of
    // using `call_once` (this isn't exactly a trivial or small implementation).
    //
    // Additionally, this is tagged with `#[cold]` as it should indeed be cold
    // and it helps let LLVM know that calls to this function should be off the
    // fast path. Essentially, this should help generate more straight line code
    // in LLVM.
    //
    // Finally, this takes an `FnMut` instead of a `FnOnce` because there's
    // currently no way to take an `FnOnce` and call it via virtual dispatch
    // without some allocation overhead.
    #[cold]
    fn call_once_slow(&self, ignore_poison: bool, f: &mut dyn FnMut(OnceState)) {
        let mut spinwait = SpinWait::new();
        let mut state = self.0.load(Ordering::Relaxed);
        loop {
            // If another thread called the closure, we're done
            if state & DONE_BIT != 0 {
                // An acquire fence is needed here since we didn't load the
                // state with Ordering::Acquire.
                fence(Ordering::Acquire);
                return;
            }

            // If the state has been poisoned and we aren't forcing, then panic
            if state & POISON_BIT != 0 && !ignore_poison {
                // Need the fence here as well for the same reason
                fence(Ordering::Acquire);
                panic!("Once instance has previously been poisoned");
            }

            // Grab the lock if it isn't locked, even if there is a queue on it.
            // We also clear the poison bit since we are going to try running
            // the closure again.
            if state & LOCKED_BIT == 0 {
                match self.0.compare_exchange_weak(
                    state,
                    (state | LOCKED_BIT) & !POISON_BIT,
                    Ordering::Acquire,
                    Ordering::Relaxed,
                ) {
                    Ok(_) => break,
                    Err(x) => state = x,
                }
                continue;
            }

            // If there is no queue, try spinning a few times
            if state & PARKED_BIT == 0 && spinwait.spin() {
                state = self.0.load(Ordering::Relaxed);
                continue;
            }

            // Set the parked bit
            if state & PARKED_BIT == 0 {
                if let Err(x) = self.0.compare_exchange_weak(
                    state,
                    state | PARKED_BIT,
                    Ordering::Relaxed,
                    Ordering::Relaxed,
                ) {
                    state = x;
                    continue;
                }
            }

            // Park our thread until we are woken up by the thread that owns the
            // lock.
            let addr = self as *const _ as usize;
            let validate = || self.0.load(Ordering::Relaxed) == LOCKED_BIT | PARKED_BIT;
            let before_sleep = || {};
            let timed_out = |_, _| unreachable!();
            unsafe {
                parking_lot_core::park(
                    addr,
                    validate,
                    before_sleep,
                    timed_out,
                    DEFAULT_PARK_TOKEN,
                    None,
                );
            }

            // Loop back and check if the done bit was set
            spinwait.reset();
            state = self.0.load(Ordering::Relaxed);
        }

        struct PanicGuard<'a>(&'a Once);
        impl<'a> Drop for PanicGuard<'a> {
            fn drop(&mut self) {
                // Mark the state as poisoned, unlock it and unpark all threads.
                let once = self.0;
                let state = once.0.swap(POISON_BIT, Ordering::Release);
                if state & PARKED_BIT != 0 {
                    let addr = once as *const _ as usize;
                    unsafe {
                        parking_lot_core::unpark_all(addr, DEFAULT_UNPARK_TOKEN);
                    }
                }
            }
        }

        // At this point we have the lock, so run the closure. Make sure we
        // properly clean up if the closure panicks.
        let guard = PanicGuard(self);
        let once_state = if state & POISON_BIT != 0 {
            OnceState::Poisoned
        } else {
            OnceState::New
        };
        f(once_state);
        mem::forget(guard);

        // Now unlock the state, set the done bit and unpark all threads
        let state = self.0.swap(DONE_BIT, Ordering::Release);
        if state & PARKED_BIT != 0 {
            let addr = self as *const _ as usize;
            unsafe {
                parking_lot_core::unpark_all(addr, DEFAULT_UNPARK_TOKEN);
            }
        }
    }
}

impl Default for Once {
    #[inline]
    fn default() -> Once {
        Once::new()
    }
}

impl fmt::Debug for Once {
    fn fmt(&self, f: &mut fmt::Formatter<'_>) -> fmt::Result {
        f.debug_struct("Once")
            .field("state", &self.state())
            .finish()
    }
}

#[cfg(test)]
mod tests {
    use crate::Once;
    use std::panic;
    use std::sync::mpsc::channel;
    use std::thread;

    #[test]
    fn smoke_once() {
        static O: Once = Once::new();
        let mut a = 0;
        O.call_once(|| a += 1);
        assert_eq!(a, 1);
        O.call_once(|| a += 1);
        assert_eq!(a, 1);
    }

    #[test]
    fn stampede_once() {
        static O: Once = Once::new();
        static mut RUN: bool = false;

        let (tx, rx) = channel();
        for _ in 0..10 {
            let tx = tx.clone();
            thread::spawn(move || {
                for _ in 0..4 {
                    thread::yield_now()
                }
                unsafe {
                    O.call_once(|| {
                        assert!(!RUN);
                        RUN = true;
                    });
                    assert!(RUN);
                }
                tx.send(()).unwrap();
            });
        }

        unsafe {
            O.call_once(|| {
                assert!(!RUN);
                RUN = true;
            });
            assert!(RUN);
        }

        for _ in 0..10 {
            rx.recv().unwrap();
        }
    }

    #[test]
    fn poison_bad() {
        static O: Once = Once::new();

        // poison the once
        let t = panic::catch_unwind(|| {
            O.call_once(|| panic!());
        });
        assert!(t.is_err());

        // poisoning propagates
        let t = panic::catch_unwind(|| {
            O.call_once(|| {});
        });
        assert!(t.is_err());

        // we can subvert poisoning, however
        let mut called = false;
        O.call_once_force(|p| {
            called = true;
            assert!(p.poisoned())
        });
        assert!(called);

        // once any success happens, we stop propagating the poison
        O.call_once(|| {});
    }

    #[test]
    fn wait_for_force_to_finish() {
        static O: Once = Once::new();

        // poison the once
        let t = panic::catch_unwind(|| {
            O.call_once(|| panic!());
        });
        assert!(t.is_err());

        // make sure someone's waiting inside the once via a force
        let (tx1, rx1) = channel();
        let (tx2, rx2) = channel();
        let t1 = thread::spawn(move || {
            O.call_once_force(|p| {
                assert!(p.poisoned());
                tx1.send(()).unwrap();
                rx2.recv().unwrap();
            });
        });

        rx1.recv().unwrap();

        // put another waiter on the once
        let t2 = thread::spawn(|| {
            let mut called = false;
            O.call_once(|| {
                called = true;
            });
            assert!(!called);
        });

        tx2.send(()).unwrap();

        assert!(t1.join().is_ok());
        assert!(t2.join().is_ok());
    }

    #[test]
    fn test_once_debug() {
        static O: Once = Once::new();

        assert_eq!(format!("{:?}", O), "Once { state: New }");
    }
}
