// Copyright 2016 Amanieu d'Antras
//
// Licensed under the Apache License, Version 2.0, <LICENSE-APACHE or
// http://apache.org/licenses/LICENSE-2.0> or the MIT license <LICENSE-MIT or
// http://opensource.org/licenses/MIT>, at your option. This file may not be
// copied, modified, or distributed except according to those terms.

use std::time::{Duration, Instant};

// Option::unchecked_unwrap
pub trait UncheckedOptionExt<T> {
    unsafe fn unchecked_unwrap(self) -> T;
}

impl<T> UncheckedOptionExt<T> for Option<T> {
    #[inline]
    unsafe fn unchecked_unwrap(self) -> T {
        match self {
            Some(x) => x,
            None => unreachable(),
        }
    }
}

// hint::unreachable_unchecked() in release mode
#[inline]
unsafe fn unreachable() -> ! {
    if cfg!(debug_assertions) {
        unreachable!();
    } else {
        core::hint::unreachable_unchecked()
    }
}

#[inline]
pub fn to_deadline(timeout: Duration) -> Option<Instant> {
    Instant::now().checked_add(timeout)
}
