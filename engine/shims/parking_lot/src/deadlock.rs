//! \[Experimental\] Deadlock detection
//!
//! This feature is optional and can be enabled via the `deadlock_detection` feature flag.
//!
//! # Example
//!
//! ```
//! #[cfg(feature = "deadlock_detection")]
//! { // only for #[cfg]
//! use std::thread;
//! use std::time::Duration;
//! use parking_lot::deadlock;
//!
//! // Create a background thread which checks for deadlocks every 10s
//! thread::spawn(move || {
//!     loop {
//!         thread::sleep(Duration::from_secs(10));
//!         let deadlocks = deadlock::check_deadlock();
//!         if deadlocks.is_empty() {
//!             continue;
//!         }
//!
//!         println!("{} deadlocks detected", deadlocks.len());
//!         for (i, threads) in deadlocks.iter().enumerate() {
//!             println!("Deadlock #{}", i);
//!             for t in threads {
//!                 println!("Thread Id {:#?}", t.thread_id());
//!                 println!("{:#?}", t.backtrace());
//!             }
//!         }
//!     }
//! });
//! } // only for #[cfg]
//! ```

#[cfg(feature = "deadlock_detection")]
pub use parking_lot_core::deadlock::check_deadlock;
pub(crate) use parking_lot_core::deadlock::{acquire_resource, release_resource};

#[cfg(test)]
#[cfg(feature = "deadlock_detection")]
mod tests {
    use crate::{Mutex, ReentrantMutex, RwLock};
    use std::sync::{Arc, Barrier};
    use std::thread::{self, sleep};
    use std::time::Duration;

    // We need to serialize these tests since deadlock detection uses global state
    static DEADLOCK_DETECTION_LOCK: Mutex<()> = crate::const_mutex(());

    fn check_deadlock() -> bool {
        use parking_lot_core::deadlock::check_deadlock;
        !check_deadlock().is_empty()
    }

    #[test]
    fn test_mutex_deadlock() {
        let _guard = DEADLOCK_DETECTION_LOCK.lock();

        let m1: Arc<Mutex<()>> = Default::default();
        let m2: Arc<Mutex<()>> = Default::default();
        let m3: Arc<Mutex<()>> = Default::default();
        let b = Arc::new(Barrier::new(4));

        let m1_ = m1.clone();
        let m2_ = m2.clone();
        let m3_ = m3.clone();
        let b1 = b.clone();
        let b2 = b.clone();
        let b3 = b.clone();

        assert!(!check_deadlock());

        let _t1 = thread::spawn(move || {
            let _g = m1.lock();
            b1.wait();
            let _ = m2_.lock();
        });

        let _t2 = thread::spawn(move || {
            let _g = m2.lock();
            b2.wait();
            let _ = m3_.lock();
        });

        let _t3 = thread::spawn(move || {
            let _g = m3.lock();
            b3.wait();
            let _ = m1_.lock();
        });

        assert!(!check_deadlock());

        b.wait();
        sleep(Duration::from_millis(50));
        assert!(check_deadlock());

        assert!(!check_deadlock());
    }

    #[test]
    fn test_mutex_deadlock_reentrant() {
        let _guard = DEADLOCK_DETECTION_LOCK.lock();

        let m1: Arc<Mutex<()>> = Default::default();

        assert!(!check_deadlock());

        let _t1 = thread::spawn(move || {
            let _g = m1.lock();
            let _ = m1.lock();
        });

        sleep(Duration::from_millis(50));
        assert!(check_deadlock());

        assert!(!check_deadlock());
    }

    #[test]
    fn test_remutex_deadlock() {
        let _guard = DEADLOCK_DETECTION_LOCK.lock();

        let m1: Arc<ReentrantMutex<()>> = Default::default();
        let m2: Arc<ReentrantMutex<()>> = Default::default();
        let m3: Arc<ReentrantMutex<()>> = Default::default();
        let b = Arc::new(Barrier::new(4));

        let m1_ = m1.clone();
        let m2_ = m2.clone();
        let m3_ = m3.clone();
        let b1 = b.clone();
        let b2 = b.clone();
        let b3 = b.clone();

        assert!(!check_deadlock());

        let _t1 = thread::spawn(move || {
            let _g = m1.lock();
            let _g = m1.lock();
            b1.wait();
            let _ = m2_.lock();
        });

        let _t2 = thread::spawn(move || {
            let _g = m2.lock();
            let _g = m2.lock();
            b2.wait();
            let _ = m3_.lock();
        });

        let _t3 = thread::spawn(move || {
            let _g = m3.lock();
            let _g = m3.lock();
            b3.wait();
            let _ = m1_.lock();
        });

        assert!(!check_deadlock());

        b.wait();
        sleep(Duration::from_millis(50));
        assert!(check_deadlock());

        assert!(!check_deadlock());
    }

    #[test]
    fn test_rwlock_deadlock() {
        let _guard = DEADLOCK_DETECTION_LOCK.lock();

        let m1: Arc<RwLock<()>> = Default::default();
        let m2: Arc<RwLock<()>> = Default::default();
        let m3: Arc<RwLock<()>> = Default::default();
        let b = Arc::new(Barrier::new(4));

        let m1_ = m1.clone();
        let m2_ = m2.clone();
        let m3_ = m3.clone();
        let b1 = b.clone();
        let b2 = b.clone();
        let b3 = b.clone();

        assert!(!check_deadlock());

        let _t1 = thread::spawn(move || {
            let _g = m1.read();
            b1.wait();
            let _g = m2_.write();
        });

        let _t2 = thread::spawn(move || {
            let _g = m2.read();
            b2.wait();
            let _g = m3_.write();
        });

        let _t3 = thread::spawn(move || {
            let _g = m3.read();
            b3.wait();
            let _ = m1_.write();
        });

        assert!(!check_deadlock());

        b.wait();
        sleep(Duration::from_millis(50));
        assert!(check_deadlock());

        assert!(!check_deadlock());
    }

    #[cfg(rwlock_deadlock_detection_not_supported)]
    #[test]
    fn test_rwlock_deadlock_reentrant() {
        let _guard = DEADLOCK_DETECTION_LOCK.lock();

        let m1: Arc<RwLock<()>> = Default::default();

        assert!(!check_deadlock());

        let _t1 = thread::spawn(move || {
            let _g = m1.read();
            let _ = m1.write();
        });

        sleep(Duration::from_millis(50));
        assert!(check_deadlock());

        assert!(!check_deadlock());
    }
}
