// Copyright 2016 Amanieu d'Antras
//
// Licensed under the Apache License, Version 2.0, <LICENSE-APACHE or
// http://apache.org/licenses/LICENSE-2.0> or the MIT license <LICENSE-MIT or
// http://opensource.org/licenses/MIT>, at your option. This file may not be
// copied, modified, or distributed except according to those terms.

use crate::raw_fair_mutex::RawFairMutex;

/// A mutual exclusive primitive that is always fair, useful for protecting shared data
///
/// This mutex will block threads waiting for the lock to become available. The
/// mutex can be statically initialized or created by the `new`
/// constructor. Each mutex has a type parameter which represents the data that
/// it is protecting. The data can only be accessed through the RAII guards
/// returned from `lock` and `try_lock`, which guarantees that the data is only
/// ever accessed when the mutex is locked.
///
/// The regular mutex provided by `parking_lot` uses eventual fairness
/// (after some time it will default to the fair algorithm), but eventual
/// fairness does not provide the same guarantees an always fair method would.
/// Fair mutexes are generally slower, but sometimes needed.
///
/// In a fair mutex the waiters form a queue, and the lock is always granted to
/// the next requester in the queue, in first-in first-out order. This ensures
/// that one thread cannot starve others by quickly re-acquiring the lock after
/// releasing it.
///
/// A fair mutex may not be interesting if threads have different priorities (this is known as
/// priority inversion).
///
/// # Differences from the standard library `Mutex`
///
/// - No poisoning, the lock is released normally on panic.
/// - Only requires 1 byte of space, whereas the standard library boxes the
///   `FairMutex` due to platform limitations.
/// - Can be statically constructed.
/// - Does not require any drop glue when dropped.
/// - Inline fast path for the uncontended case.
/// - Efficient handling of micro-contention using adaptive spinning.
/// - Allows raw locking & unlocking without a guard.
///
/// # Examples
///
/// ```
/// use parking_lot::FairMutex;
/// use std::sync::{Arc, mpsc::channel};
/// use std::thread;
///
/// const N: usize = 10;
///
/// // Spawn a few threads to increment a shared variable (non-atomically), and
/// // let the main thread know once all increments are done.
/// //
/// // Here we're using an Arc to share memory among threads, and the data inside
/// // the Arc is protected with a mutex.
/// let data = Arc::new(FairMutex::new(0));
///
/// let (tx, rx) = channel();
/// for _ in 0..10 {
///     let (data, tx) = (Arc::clone(&data), tx.clone());
///     thread::spawn(move || {
///         // The shared state can only be accessed once the lock is held.
///         // Our non-atomic increment is safe because we're the only thread
///         // which can access the shared state when the lock is held.
///         let mut data = data.lock();
///         *data += 1;
///         if *data == N {
///             tx.send(()).unwrap();
///         }
///         // the lock is unlocked here when `data` goes out of scope.
///     });
/// }
///
/// rx.recv().unwrap();
/// ```
pub type FairMutex<T> = lock_api::Mutex<RawFairMutex, T>;

/// Creates a new fair mutex in an unlocked state ready for use.
///
/// This allows creating a fair mutex in a constant context on stable Rust.
pub const fn const_fair_mutex<T>(val: T) -> FairMutex<T> {
    FairMutex::const_new(<RawFairMutex as lock_api::RawMutex>::INIT, val)
}

/// An RAII implementation of a "scoped lock" of a mutex. When this structure is
/// dropped (falls out of scope), the lock will be unlocked.
///
/// The data protected by the mutex can be accessed through this guard via its
/// `Deref` and `DerefMut` implementations.
pub type FairMutexGuard<'a, T> = lock_api::MutexGuard<'a, RawFairMutex, T>;

/// An RAII mutex guard returned by `FairMutexGuard::map`, which can point to a
/// subfield of the protected data.
///
/// The main difference between `MappedFairMutexGuard` and `FairMutexGuard` is that the
/// former doesn't support temporarily unlocking and re-locking, since that
/// could introduce soundness issues if the locked object is modified by another
/// thread.
pub type MappedFairMutexGuard<'a, T> = lock_api::MappedMutexGuard<'a, RawFairMutex, T>;

#[cfg(test)]
mod tests {
    use crate::FairMutex;
    use std::sync::atomic::{AtomicUsize, Ordering};
    use std::sync::mpsc::channel;
    use std::sync::Arc;
    use std::thread;

    #[cfg(feature = "serde")]
    use bincode::{deserialize, serialize};

    #[derive(Eq, PartialEq, Debug)]
    struct NonCopy(i32);

    #[test]
    fn smoke() {
        let m = FairMutex::new(());
        drop(m.lock());
        drop(m.lock());
    }

    #[test]
    fn lots_and_lots() {
        const J: u32 = 1000;
        const K: u32 = 3;

        let m = Arc::new(FairMutex::new(0));

        fn inc(m: &FairMutex<u32>) {
            for _ in 0..J {
                *m.lock() += 1;
            }
        }

        let (tx, rx) = channel();
        for _ in 0..K {
            let tx2 = tx.clone();
            let m2 = m.clone();
            thread::spawn(move || {
                inc(&m2);
                tx2.send(()).unwrap();
            });
            let tx2 = tx.clone();
            let m2 = m.clone();
            thread::spawn(move || {
                inc(&m2);
                tx2.send(()).unwrap();
            });
        }

        drop(tx);
        for _ in 0..2 * K {
            rx.recv().unwrap();
        }
        assert_eq!(*m.lock(), J * K * 2);
    }

    #[test]
    fn try_lock() {
        let m = FairMutex::new(());
        *m.try_lock().unwrap() = ();
    }

    #[test]
    fn test_into_inner() {
        let m = FairMutex::new(NonCopy(10));
        assert_eq!(m.into_inner(), NonCopy(10));
    }

    #[test]
    fn test_into_inner_drop() {
        struct Foo(Arc<AtomicUsize>);
        impl Drop for Foo {
            fn drop(&mut self) {
                self.0.fetch_add(1, Ordering::SeqCst);
            }
        }
        let num_drops = Arc::new(AtomicUsize::new(0));
        let m = FairMutex::new(Foo(num_drops.clone()));
        assert_eq!(num_drops.load(Ordering::SeqCst), 0);
        {
            let _inner = m.into_inner();
            assert_eq!(num_drops.load(Ordering::SeqCst), 0);
        }
        assert_eq!(num_drops.load(Ordering::SeqCst), 1);
    }

    #[test]
    fn test_get_mut() {
        let mut m = FairMutex::new(NonCopy(10));
        *m.get_mut() = NonCopy(20);
        assert_eq!(m.into_inner(), NonCopy(20));
    }

    #[test]
    fn test_mutex_arc_nested() {
        // Tests nested mutexes and access
        // to underlying data.
        let arc = Arc::new(FairMutex::new(1));
        let arc2 = Arc::new(FairMutex::new(arc));
        let (tx, rx) = channel();
        let _t = thread::spawn(move || {
            let lock = arc2.lock();
            let lock2 = lock.lock();
            assert_eq!(*lock2, 1);
            tx.send(()).unwrap();
        });
        rx.recv().unwrap();
    }

    #[test]
    fn test_mutex_arc_access_in_unwind() {
        let arc = Arc::new(FairMutex::new(1));
        let arc2 = arc.clone();
        let _ = thread::spawn(move || {
            struct Unwinder {
                i: Arc<FairMutex<i32>>,
            }
            impl Drop for Unwinder {
                fn drop(&mut self) {
                    *self.i.lock() += 1;
                }
            }
            let _u = Unwinder { i: arc2 };
            panic!();
        })
        .join();
        let lock = arc.lock();
        assert_eq!(*lock, 2);
    }

    #[test]
    fn test_mutex_unsized() {
        let mutex: &FairMutex<[i32]> = &FairMutex::new([1, 2, 3]);
        {
            let b = &mut *mutex.lock();
            b[0] = 4;
            b[2] = 5;
        }
        let comp: &[i32] = &[4, 2, 5];
        assert_eq!(&*mutex.lock(), comp);
    }

    #[test]
    fn test_mutexguard_sync() {
        fn sync<T: Sync>(_: T) {}

        let mutex = FairMutex::new(());
        sync(mutex.lock());
    }

    #[test]
    fn test_mutex_debug() {
        let mutex = FairMutex::new(vec![0u8, 10]);

        assert_eq!(format!("{:?}", mutex), "Mutex { data: [0, 10] }");
        let _lock = mutex.lock();
        assert_eq!(format!("{:?}", mutex), "Mutex { data: <locked> }");
    }

    #[cfg(feature = "serde")]
    #[test]
    fn test_serde() {
        let contents: Vec<u8> = vec![0, 1, 2];
        let mutex = FairMutex::new(contents.clone());

        let serialized = serialize(&mutex).unwrap();
        let deserialized: FairMutex<Vec<u8>> = deserialize(&serialized).unwrap();

        assert_eq!(*(mutex.lock()), *(deserialized.lock()));
        assert_eq!(contents, *(deserialized.lock()));
    }
}
