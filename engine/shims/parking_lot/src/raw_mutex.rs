// Copyright 2016 Amanieu d'Antras
//
// Licensed under the Apache License, Version 2.0, <LICENSE-APACHE or
// http://apache.org/licenses/LICENSE-2.0> or the MIT license <LICENSE-MIT or
// http://opensource.org/licenses/MIT>, at your option. This file may not be
// copied, modified, or distributed except according to those terms.

use crate::{deadlock, util};
use core::{
    sync::atomic::{AtomicU8, Ordering},
    time::Duration,
};
use lock_api::RawMutex as RawMutex_;
use parking_lot_core::{self, ParkResult, SpinWait, UnparkResult, UnparkToken, DEFAULT_PARK_TOKEN};
use std::time::Instant;

// UnparkToken used to indicate that that the target thread should attempt to
// lock the mutex again as soon as it is unparked.
pub(crate) const TOKEN_NORMAL: UnparkToken = UnparkToken(0);

// UnparkToken used to indicate that the mutex is being handed off to the target
// thread directly without unlocking it.
pub(crate) const TOKEN_HANDOFF: UnparkToken = UnparkToken(1);

/// This bit is set in the `state` of a `RawMutex` when that mutex is locked by some thread.
const LOCKED_BIT: u8 = 0b01;
/// This bit is set in the `state` of a `RawMutex` just before parking a thread. A thread is being
/// parked if it wants to lock the mutex, but it is currently being held by some other thread.
const PARKED_BIT: u8 = 0b10;

/// Raw mutex type backed by the parking lot.
pub struct RawMutex {
    /// This atomic integer holds the current state of the mutex instance. Only the two lowest bits
    /// are used. See `LOCKED_BIT` and `PARKED_BIT` for the bitmask for these bits.
    ///
    /// # State table:
    ///
    /// PARKED_BIT | LOCKED_BIT | Description
    ///     0      |     0      | The mutex is not locked, nor is anyone waiting for it.
    /// -----------+------------+------------------------------------------------------------------
    ///     0      |     1      | The mutex is locked by exactly one thread. No other thread is
    ///            |            | waiting for it.
    /// -----------+------------+------------------------------------------------------------------
    ///     1      |     0      | The mutex is not locked. One or more thread is parked or about to
    ///            |            | park. At least one of the parked threads are just about to be
    ///            |            | unparked, or a thread heading for parking might abort the park.
    /// -----------+------------+------------------------------------------------------------------
    ///     1      |     1      | The mutex is locked by exactly one thread. One or more thread is
    ///            |            | parked or about to park, waiting for the lock to become available.
    ///            |            | In this state, PARKED_BIT is only ever cleared when a bucket lock
    ///            |            | is held (i.e. in a parking_lot_core callback). This ensures that
    ///            |            | we never end up in a situation where there are parked threads but
    ///            |            | PARKED_BIT is not set (which would result in those threads
    ///            |            | potentially never getting woken up).
    state: AtomicU8,
}

unsafe impl lock_api::RawMutex for RawMutex {
    const INIT: RawMutex = RawMutex {
        state: AtomicU8::new(0),
    };

    type GuardMarker = crate::GuardMarker;

    #[inline]
    fn lock(&self) {
        vsched::acquire(self as *const _ as usize, vsched::Mode::Excl);
        if self
            .state
            .compare_exchange_weak(0, LOCKED_BIT, Ordering::Acquire, Ordering::Relaxed)
            .is_err()
        {
            self.lock_slow(None);
        }
        unsafe { deadlock::acquire_resource(self as *const _ as usize) };
    }

    #[inline]
    fn try_lock(&self) -> bool {
        if let Some(ok) = vsched::try_acquire(self as *const _ as usize, vsched::Mode::Excl) { if !ok { return false; } }
        let mut state = self.state.load(Ordering::Relaxed);
        loop {
            if state & LOCKED_BIT != 0 {
                return false;
            }
            match self.state.compare_exchange_weak(
                state,
                state | LOCKED_BIT,
                Ordering::Acquire,
                Ordering::Relaxed,
            ) {
                Ok(_) => {
                    unsafe { deadlock::acquire_resource(self as *const _ as usize) };
                    return true;
                }
                Err(x) => state = x,
            }
        }
    }

    #[inline]
    unsafe fn unlock(&self) {
        vsched::release(self as *const _ as usize, vsched::Mode::Excl);
        deadlock::release_resource(self as *const _ as usize);
        if self
            .state
            .compare_exchange(LOCKED_BIT, 0, Ordering::Release, Ordering::Relaxed)
            .is_ok()
        {
            return;
        }
        self.unlock_slow(false);
    }

    #[inline]
    fn is_locked(&self) -> bool {
        let state = self.state.load(Ordering::Relaxed);
        state & LOCKED_BIT != 0
    }
}

unsafe impl lock_api::RawMutexFair for RawMutex {
    #[inline]
    unsafe fn unlock_fair(&self) {
        vsched::release(self as *const _ as usize, vsched::Mode::Excl);
        deadlock::release_resource(self as *const _ as usize);
        if self
            .state
            .compare_exchange(LOCKED_BIT, 0, Ordering::Release, Ordering::Relaxed)
            .is_ok()
        {
            return;
        }
        self.unlock_slow(true);
    }

    #[inline]
    unsafe fn bump(&self) {
        if self.state.load(Ordering::Relaxed) & PARKED_BIT != 0 {
            self.bump_slow();
        }
    }
}

unsafe impl lock_api::RawMutexTimed for RawMutex {
    type Duration = Duration;
    type Instant = Instant;

    #[inline]
    fn try_lock_until(&self, timeout: Instant) -> bool {
        if let Some(ok) = vsched::try_acquire(self as *const _ as usize, vsched::Mode::Excl) { if !ok { return false; } }
        let result = if self
            .state
            .compare_exchange_weak(0, LOCKED_BIT, Ordering::Acquire, Ordering::Relaxed)
            .is_ok()
        {
            true
        } else {
            self.lock_slow(Some(timeout))
        };
        if result {
            unsafe { deadlock::acquire_resource(self as *const _ as usize) };
        }
        result
    }

    #[inline]
    fn try_lock_for(&self, timeout: Duration) -> bool {
        if let Some(ok) = vsched::try_acquire(self as *const _ as usize, vsched::Mode::Excl) { if !ok { return false; } }
        let result = if self
            .state
            .compare_exchange_weak(0, LOCKED_BIT, Ordering::Acquire, Ordering::Relaxed)
            .is_ok()
        {
            true
        } else {
            self.lock_slow(util::to_deadline(timeout))
        };
        if result {
            unsafe { deadlock::acquire_resource(self as *const _ as usize) };
        }
        result
    }
}

impl RawMutex {
    // Used by Condvar when requeuing threads to us, must be called while
    // holding the queue lock.
    #[inline]
    pub(crate) fn mark_parked_if_locked(&self) -> bool {
        let mut state = self.state.load(Ordering::Relaxed);
        loop {
            if state & LOCKED_BIT == 0 {
                return false;
            }
            match self.state.compare_exchange_weak(
                state,
                state | PARKED_BIT,
                Ordering::Relaxed,
                Ordering::Relaxed,
            ) {
                Ok(_) => return true,
                Err(x) => state = x,
            }
        }
    }

    // Used by Condvar when requeuing threads to us, must be called while
    // holding the queue lock.
    #[inline]
    pub(crate) fn mark_parked(&self) {
        self.state.fetch_or(PARKED_BIT, Ordering::Relaxed);
    }

    #[cold]
    fn lock_slow(&self, timeout: Option<Instant>) -> bool {
        let mut spinwait = SpinWait::new();
        let mut state = self.state.load(Ordering::Relaxed);
        loop {
            // Grab the lock if it isn't locked, even if there is a queue on it
            if state & LOCKED_BIT == 0 {
                match self.state.compare_exchange_weak(
                    state,
                    state | LOCKED_BIT,
                    Ordering::Acquire,
                    Ordering::Relaxed,
                ) {
                    Ok(_) => return true,
                    Err(x) => state = x,
                }
                continue;
            }

            // If there is no queue, try spinning a few times
            if state & PARKED_BIT == 0 && spinwait.spin() {
                state = self.state.load(Ordering::Relaxed);
                continue;
            }

            // Set the parked bit
            if state & PARKED_BIT == 0 {
                if let Err(x) = self.state.compare_exchange_weak(
                    state,
                    state | PARKED_BIT,
                    Ordering::Relaxed,
                    Ordering::Relaxed,
                ) {
                    state = x;
                    continue;
                }
            }

            // Park our thread until we are woken up by an unlock
            let addr = self as *const _ as usize;
            let validate = || self.state.load(Ordering::Relaxed) == LOCKED_BIT | PARKED_BIT;
            let before_sleep = || {};
            let timed_out = |_, was_last_thread| {
                // Clear the parked bit if we were the last parked thread
                if was_last_thread {
                    self.state.fetch_and(!PARKED_BIT, Ordering::Relaxed);
                }
            };
            // SAFETY:
            //   * `addr` is an address we control.
            //   * `validate`/`timed_out` does not panic or call into any function of `parking_lot`.
            //   * `before_sleep` does not call `park`, nor does it panic.
            match unsafe {
                parking_lot_core::park(
                    addr,
                    validate,
                    before_sleep,
                    timed_out,
                    DEFAULT_PARK_TOKEN,
                    timeout,
                )
            } {
                // The thread that unparked us passed the lock on to us
                // directly without unlocking it.
                ParkResult::Unparked(TOKEN_HANDOFF) => return true,

                // We were unparked normally, try acquiring the lock again
                ParkResult::Unparked(_) => (),

                // The validation function failed, try locking again
                ParkResult::Invalid => (),

                // Timeout expired
                ParkResult::TimedOut => return false,
            }

            // Loop back and try locking again
            spinwait.reset();
            state = self.state.load(Ordering::Relaxed);
        }
    }

    #[cold]
    fn unlock_slow(&self, force_fair: bool) {
        // Unpark one thread and leave the parked bit set if there might
        // still be parked threads on this address.
        let addr = self as *const _ as usize;
        let callback = |result: UnparkResult| {
            // If we are using a fair unlock then we should keep the
            // mutex locked and hand it off to the unparked thread.
            if result.unparked_threads != 0 && (force_fair || result.be_fair) {
                // Clear the parked bit if there are no more parked
                // threads.
                if !result.have_more_threads {
                    self.state.store(LOCKED_BIT, Ordering::Relaxed);
                }
                return TOKEN_HANDOFF;
            }

            // Clear the locked bit, and the parked bit as well if there
            // are no more parked threads.
            if result.have_more_threads {
                self.state.store(PARKED_BIT, Ordering::Release);
            } else {
                self.state.store(0, Ordering::Release);
            }
            TOKEN_NORMAL
        };
        // SAFETY:
        //   * `addr` is an address we control.
        //   * `callback` does not panic or call into any function of `parking_lot`.
        unsafe {
            parking_lot_core::unpark_one(addr, callback);
        }
    }

    #[cold]
    fn bump_slow(&self) {
        unsafe { deadlock::release_resource(self as *const _ as usize) };
        self.unlock_slow(true);
        self.lock();
    }
}
