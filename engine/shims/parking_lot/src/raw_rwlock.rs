// Copyright 2016 Amanieu d'Antras
//
// Licensed under the Apache License, Version 2.0, <LICENSE-APACHE or
// http://apache.org/licenses/LICENSE-2.0> or the MIT license <LICENSE-MIT or
// http://opensource.org/licenses/MIT>, at your option. This file may not be
// copied, modified, or distributed except according to those terms.

use crate::elision::{have_elision, AtomicElisionExt};
use crate::raw_mutex::{TOKEN_HANDOFF, TOKEN_NORMAL};
use crate::util;
use core::{
    cell::Cell,
    sync::atomic::{AtomicUsize, Ordering},
};
use lock_api::{RawRwLock as RawRwLock_, RawRwLockUpgrade};
use parking_lot_core::{
    self, deadlock, FilterOp, ParkResult, ParkToken, SpinWait, UnparkResult, UnparkToken,
};
use std::time::{Duration, Instant};

// This reader-writer lock implementation is based on Boost's upgrade_mutex:
// https://github.com/boostorg/thread/blob/fc08c1fe2840baeeee143440fba31ef9e9a813c8/include/boost/thread/v2/shared_mutex.hpp#L432
//
// This implementation uses 2 wait queues, one at key [addr] and one at key
// [addr + 1]. The primary queue is used for all new waiting threads, and the
// secondary queue is used by the thread which has acquired WRITER_BIT but is
// waiting for the remaining readers to exit the lock.
//
// This implementation is fair between readers and writers since it uses the
// order in which threads first started queuing to alternate between read phases
// and write phases. In particular is it not vulnerable to write starvation
// since readers will block if there is a pending writer.

// There is at least one thread in the main queue.
const PARKED_BIT: usize = 0b0001;
// There is a parked thread holding WRITER_BIT. WRITER_BIT must be set.
const WRITER_PARKED_BIT: usize = 0b0010;
// A reader is holding an upgradable lock. The reader count must be non-zero and
// WRITER_BIT must not be set.
const UPGRADABLE_BIT: usize = 0b0100;
// If the reader count is zero: a writer is currently holding an exclusive lock.
// Otherwise: a writer is waiting for the remaining readers to exit the lock.
const WRITER_BIT: usize = 0b1000;
// Mask of bits used to count readers.
const READERS_MASK: usize = !0b1111;
// Base unit for counting readers.
const ONE_READER: usize = 0b10000;

// Token indicating what type of lock a queued thread is trying to acquire
const TOKEN_SHARED: ParkToken = ParkToken(ONE_READER);
const TOKEN_EXCLUSIVE: ParkToken = ParkToken(WRITER_BIT);
const TOKEN_UPGRADABLE: ParkToken = ParkToken(ONE_READER | UPGRADABLE_BIT);

/// Raw reader-writer lock type backed by the parking lot.
pub struct RawRwLock {
    state: AtomicUsize,
}

unsafe impl lock_api::RawRwLock for RawRwLock {
    const INIT: RawRwLock = RawRwLock {
        state: AtomicUsize::new(0),
    };

    type GuardMarker = crate::GuardMarker;

    #[inline]
    fn lock_exclusive(&self) {
        vsched::acquire(self as *const _ as usize, vsched::Mode::Excl);
        if self
            .state
            .compare_exchange_weak(0, WRITER_BIT, Ordering::Acquire, Ordering::Relaxed)
            .is_err()
        {
            let result = self.lock_exclusive_slow(None);
            debug_assert!(result);
        }
        self.deadlock_acquire();
    }

    #[inline]
    fn try_lock_exclusive(&self) -> bool {
        if let Some(ok) = vsched::try_acquire(self as *const _ as usize, vsched::Mode::Excl) { if !ok { return false; } }
        if self
            .state
            .compare_exchange(0, WRITER_BIT, Ordering::Acquire, Ordering::Relaxed)
            .is_ok()
        {
            self.deadlock_acquire();
            true
        } else {
            false
        }
    }

    #[inline]
    unsafe fn unlock_exclusive(&self) {
        vsched::release(self as *const _ as usize, vsched::Mode::Excl);
        self.deadlock_release();
        if self
            .state
            .compare_exchange(WRITER_BIT, 0, Ordering::Release, Ordering::Relaxed)
            .is_ok()
        {
            return;
        }
        self.unlock_exclusive_slow(false);
    }

    #[inline]
    fn lock_shared(&self) {
        vsched::acquire(self as *const _ as usize, vsched::Mode::Shared);
        if !self.try_lock_shared_fast(false) {
            let result = self.lock_shared_slow(false, None);
            debug_assert!(result);
        }
        self.deadlock_acquire();
    }

    #[inline]
    fn try_lock_shared(&self) -> bool {
        if let Some(ok) = vsched::try_acquire(self as *const _ as usize, vsched::Mode::Shared) { if !ok { return false; } }
        let result = if self.try_lock_shared_fast(false) {
            true
        } else {
            self.try_lock_shared_slow(false)
        };
        if result {
            self.deadlock_acquire();
        }
        result
    }

    #[inline]
    unsafe fn unlock_shared(&self) {
        vsched::release(self as *const _ as usize, vsched::Mode::Shared);
        self.deadlock_release();
        let state = if have_elision() {
            self.state.elision_fetch_sub_release(ONE_READER)
        } else {
            self.state.fetch_sub(ONE_READER, Ordering::Release)
        };
        if state & (READERS_MASK | WRITER_PARKED_BIT) == (ONE_READER | WRITER_PARKED_BIT) {
            self.unlock_shared_slow();
        }
    }

    #[inline]
    fn is_locked(&self) -> bool {
        let state = self.state.load(Ordering::Relaxed);
        state & (WRITER_BIT | READERS_MASK) != 0
    }

    #[inline]
    fn is_locked_exclusive(&self) -> bool {
        let state = self.state.load(Ordering::Relaxed);
        state & (WRITER_BIT) != 0
    }
}

unsafe impl lock_api::RawRwLockFair for RawRwLock {
    #[inline]
    unsafe fn unlock_shared_fair(&self) {
        // Shared unlocking is always fair in this implementation.
        self.unlock_shared();
    }

    #[inline]
    unsafe fn unlock_exclusive_fair(&self) {
        vsched::release(self as *const _ as usize, vsched::Mode::Excl);
        self.deadlock_release();
        if self
            .state
            .compare_exchange(WRITER_BIT, 0, Ordering::Release, Ordering::Relaxed)
            .is_ok()
        {
            return;
        }
        self.unlock_exclusive_slow(true);
    }

    #[inline]
    unsafe fn bump_shared(&self) {
        if self.state.load(Ordering::Relaxed) & WRITER_BIT != 0 {
            self.bump_shared_slow();
        }
    }

    #[inline]
    unsafe fn bump_exclusive(&self) {
        if self.state.load(Ordering::Relaxed) & PARKED_BIT != 0 {
            self.bump_exclusive_slow();
        }
    }
}

unsafe impl lock_api::RawRwLockDowngrade for RawRwLock {
    #[inline]
    unsafe fn downgrade(&self) {
        vsched::downgrade(self as *const _ as usize);
        let state = self
            .state
            .fetch_add(ONE_READER - WRITER_BIT, Ordering::Release);

        // Wake up parked shared and upgradable threads if there are any
        if state & PARKED_BIT != 0 {
            self.downgrade_slow();
        }
    }
}

unsafe impl lock_api::RawRwLockTimed for RawRwLock {
    type Duration = Duration;
    type Instant = Instant;

    #[inline]
    fn try_lock_shared_for(&self, timeout: Self::Duration) -> bool {
        // under the deterministic scheduler a timed attempt is a try-lock: the holder may be
        // descheduled for longer than any timeout (and the virtual clock stands still)
        if let Some(ok) = vsched::try_acquire(self as *const _ as usize, vsched::Mode::Shared) { if !ok { return false; } }
        let result = if self.try_lock_shared_fast(false) {
            true
        } else {
            self.lock_shared_slow(false, util::to_deadline(timeout))
        };
        if result {
            self.deadlock_acquire();
        }
        result
    }

    #[inline]
    fn try_lock_shared_until(&self, timeout: Self::Instant) -> bool {
        // under the deterministic scheduler a timed attempt is a try-lock: the holder may be
        // descheduled for longer than any timeout (and the virtual clock stands still)
        if let Some(ok) = vsched::try_acquire(self as *const _ as usize, vsched::Mode::Shared) { if !ok { return false; } }
        let result = if self.try_lock_shared_fast(false) {
            true
        } else {
            self.lock_shared_slow(false, Some(timeout))
        };
        if result {
            self.deadlock_acquire();
        }
        result
    }

    #[inline]
    fn try_lock_exclusive_for(&self, timeout: Duration) -> bool {
        // under the deterministic scheduler a timed attempt is a try-lock: the holder may be
        // descheduled for longer than any timeout (and the virtual clock stands still)
        if let Some(ok) = vsched::try_acquire(self as *const _ as usize, vsched::Mode::Excl) { if !ok { return false; } }
        let result = if self
            .state
            .compare_exchange_weak(0, WRITER_BIT, Ordering::Acquire, Ordering::Relaxed)
            .is_ok()
        {
            true
        } else {
            self.lock_exclusive_slow(util::to_deadline(timeout))
        };
        if result {
            self.deadlock_acquire();
        }
        result
    }

    #[inline]
    fn try_lock_exclusive_until(&self, timeout: Instant) -> bool {
        // under the deterministic scheduler a timed attempt is a try-lock: the holder may be
        // descheduled for longer than any timeout (and the virtual clock stands still)
        if let Some(ok) = vsched::try_acquire(self as *const _ as usize, vsched::Mode::Excl) { if !ok { return false; } }
        let result = if self
            .state
            .compare_exchange_weak(0, WRITER_BIT, Ordering::Acquire, Ordering::Relaxed)
            .is_ok()
        {
            true
        } else {
            self.lock_exclusive_slow(Some(timeout))
        };
        if result {
            self.deadlock_acquire();
        }
        result
    }
}

unsafe impl lock_api::RawRwLockRecursive for RawRwLock {
    #[inline]
    fn lock_shared_recursive(&self) {
        vsched::acquire(self as *const _ as usize, vsched::Mode::Shared);
        if !self.try_lock_shared_fast(true) {
            let result = self.lock_shared_slow(true, None);
            debug_assert!(result);
        }
        self.deadlock_acquire();
    }

    #[inline]
    fn try_lock_shared_recursive(&self) -> bool {
        if let Some(ok) = vsched::try_acquire(self as *const _ as usize, vsched::Mode::Shared) { if !ok { return false; } }
        let result = if self.try_lock_shared_fast(true) {
            true
        } else {
            self.try_lock_shared_slow(true)
        };
        if result {
            self.deadlock_acquire();
        }
        result
    }
}

unsafe impl lock_api::RawRwLockRecursiveTimed for RawRwLock {
    #[inline]
    fn try_lock_shared_recursive_for(&self, timeout: Self::Duration) -> bool {
        let result = if self.try_lock_shared_fast(true) {
            true
        } else {
            self.lock_shared_slow(true, util::to_deadline(timeout))
        };
        if result {
            self.deadlock_acquire();
        }
        result
    }

    #[inline]
    fn try_lock_shared_recursive_until(&self, timeout: Self::Instant) -> bool {
        let result = if self.try_lock_shared_fast(true) {
            true
        } else {
            self.lock_shared_slow(true, Some(timeout))
        };
        if result {
            self.deadlock_acquire();
        }
        result
    }
}

unsafe impl lock_api::RawRwLockUpgrade for RawRwLock {
    #[inline]
    fn lock_upgradable(&self) {
        if !self.try_lock_upgradable_fast() {
            let result = self.lock_upgradable_slow(None);
            debug_assert!(result);
        }
        self.deadlock_acquire();
    }

    #[inline]
    fn try_lock_upgradable(&self) -> bool {
        let result = if self.try_lock_upgradable_fast() {
            true
        } else {
            self.try_lock_upgradable_slow()
        };
        if result {
            self.deadlock_acquire();
        }
        result
    }

    #[inline]
    unsafe fn unlock_upgradable(&self) {
        self.deadlock_release();
        let state = self.state.load(Ordering::Relaxed);
        #[allow(clippy::collapsible_if)]
        if state & PARKED_BIT == 0 {
            if self
                .state
                .compare_exchange_weak(
                    state,
                    state - (ONE_READER | UPGRADABLE_BIT),
                    Ordering::Release,
                    Ordering::Relaxed,
                )
                .is_ok()
            {
                return;
            }
        }
        self.unlock_upgradable_slow(false);
    }

    #[inline]
    unsafe fn upgrade(&self) {
        let state = self.state.fetch_sub(
            (ONE_READER | UPGRADABLE_BIT) - WRITER_BIT,
            Ordering::Acquire,
        );
        if state & READERS_MASK != ONE_READER {
            let result = self.upgrade_slow(None);
            debug_assert!(result);
        }
    }

    #[inline]
    unsafe fn try_upgrade(&self) -> bool {
        if self
            .state
            .compare_exchange_weak(
                ONE_READER | UPGRADABLE_BIT,
                WRITER_BIT,
                Ordering::Acquire,
                Ordering::Relaxed,
            )
            .is_ok()
        {
            true
        } else {
            self.try_upgrade_slow()
        }
    }
}

unsafe impl lock_api::RawRwLockUpgradeFair for RawRwLock {
    #[inline]
    unsafe fn unlock_upgradable_fair(&self) {
        self.deadlock_release();
        let state = self.state.load(Ordering::Relaxed);
        #[allow(clippy::collapsible_if)]
        if state & PARKED_BIT == 0 {
            if self
                .state
                .compare_exchange_weak(
                    state,
                    state - (ONE_READER | UPGRADABLE_BIT),
                    Ordering::Release,
                    Ordering::Relaxed,
                )
                .is_ok()
            {
                return;
            }
        }
        self.unlock_upgradable_slow(false);
    }

    #[inline]
    unsafe fn bump_upgradable(&self) {
        if self.state.load(Ordering::Relaxed) & PARKED_BIT != 0 {
            self.bump_upgradable_slow();
        }
    }
}

unsafe impl lock_api::RawRwLockUpgradeDowngrade for RawRwLock {
    #[inline]
    unsafe fn downgrade_upgradable(&self) {
        let state = self.state.fetch_sub(UPGRADABLE_BIT, Ordering::Relaxed);

        // Wake up parked upgradable threads if there are any
        if state & PARKED_BIT != 0 {
            self.downgrade_slow();
        }
    }

    #[inline]
    unsafe fn downgrade_to_upgradable(&self) {
        let state = self.state.fetch_add(
            (ONE_READER | UPGRADABLE_BIT) - WRITER_BIT,
            Ordering::Release,
        );

        // Wake up parked shared threads if there are any
        if state & PARKED_BIT != 0 {
            self.downgrade_to_upgradable_slow();
        }
    }
}

unsafe impl lock_api::RawRwLockUpgradeTimed for RawRwLock {
    #[inline]
    fn try_lock_upgradable_until(&self, timeout: Instant) -> bool {
        let result = if self.try_lock_upgradable_fast() {
            true
        } else {
            self.lock_upgradable_slow(Some(timeout))
        };
        if result {
            self.deadlock_acquire();
        }
        result
    }

    #[inline]
    fn try_lock_upgradable_for(&self, timeout: Duration) -> bool {
        let result = if self.try_lock_upgradable_fast() {
            true
        } else {
            self.lock_upgradable_slow(util::to_deadline(timeout))
        };
        if result {
            self.deadlock_acquire();
        }
        result
    }

    #[inline]
    unsafe fn try_upgrade_until(&self, timeout: Instant) -> bool {
        let state = self.state.fetch_sub(
            (ONE_READER | UPGRADABLE_BIT) - WRITER_BIT,
            Ordering::Relaxed,
        );
        if state & READERS_MASK == ONE_READER {
            true
        } else {
            self.upgrade_slow(Some(timeout))
        }
    }

    #[inline]
    unsafe fn try_upgrade_for(&self, timeout: Duration) -> bool {
        let state = self.state.fetch_sub(
            (ONE_READER | UPGRADABLE_BIT) - WRITER_BIT,
            Ordering::Relaxed,
        );
        if state & READERS_MASK == ONE_READER {
            true
        } else {
            self.upgrade_slow(util::to_deadline(timeout))
        }
    }
}

impl RawRwLock {
    #[inline(always)]
    fn try_lock_shared_fast(&self, recursive: bool) -> bool {
        let state = self.state.load(Ordering::Relaxed);

        // We can't allow grabbing a shared lock if there is a writer, even if
        // the writer is still waiting for the remaining readers to exit.
        if state & WRITER_BIT != 0 {
            // To allow recursive locks, we make an exception and allow readers
            // to skip ahead of a pending writer to avoid deadlocking, at the
            // cost of breaking the fairness guarantees.
            if !recursive || state & READERS_MASK == 0 {
                return false;
            }
        }

        // Use hardware lock elision to avoid cache conflicts when multiple
        // readers try to acquire the lock. We only do this if the lock is
        // completely empty since elision handles conflicts poorly.
        if have_elision() && state == 0 {
            self.state
                .elision_compare_exchange_acquire(0, ONE_READER)
                .is_ok()
        } else if let Some(new_state) = state.checked_add(ONE_READER) {
            self.state
                .compare_exchange_weak(state, new_state, Ordering::Acquire, Ordering::Relaxed)
                .is_ok()
        } else {
            false
        }
    }

    #[cold]
    fn try_lock_shared_slow(&self, recursive: bool) -> bool {
        let mut state = self.state.load(Ordering::Relaxed);
        loop {
            // This mirrors the condition in try_lock_shared_fast
            #[allow(clippy::collapsible_if)]
            if state & WRITER_BIT != 0 {
                if !recursive || state & READERS_MASK == 0 {
                    return false;
                }
            }
            if have_elision() && state == 0 {
                match self.state.elision_compare_exchange_acquire(0, ONE_READER) {
                    Ok(_) => return true,
                    Err(x) => state = x,
                }
            } else {
                match self.state.compare_exchange_weak(
                    state,
                    state
                        .checked_add(ONE_READER)
                        .expect("RwLock reader count overflow"),
                    Ordering::Acquire,
                    Ordering::Relaxed,
                ) {
                    Ok(_) => return true,
                    Err(x) => state = x,
                }
            }
        }
    }

    #[inline(always)]
    fn try_lock_upgradable_fast(&self) -> bool {
        let state = self.state.load(Ordering::Relaxed);

        // We can't grab an upgradable lock if there is already a writer or
        // upgradable reader.
        if state & (WRITER_BIT | UPGRADABLE_BIT) != 0 {
            return false;
        }

        if let Some(new_state) = state.checked_add(ONE_READER | UPGRADABLE_BIT) {
            self.state
                .compare_exchange_weak(state, new_state, Ordering::Acquire, Ordering::Relaxed)
                .is_ok()
        } else {
            false
        }
    }

    #[cold]
    fn try_lock_upgradable_slow(&self) -> bool {
        let mut state = self.state.load(Ordering::Relaxed);
        loop {
            // This mirrors the condition in try_lock_upgradable_fast
            if state & (WRITER_BIT | UPGRADABLE_BIT) != 0 {
                return false;
            }

            match self.state.compare_exchange_weak(
                state,
                state
                    .checked_add(ONE_READER | UPGRADABLE_BIT)
                    .expect("RwLock reader count overflow"),
                Ordering::Acquire,
                Ordering::Relaxed,
            ) {
                Ok(_) => return true,
                Err(x) => state = x,
            }
        }
    }

    #[cold]
    fn lock_exclusive_slow(&self, timeout: Option<Instant>) -> bool {
        let try_lock = |state: &mut usize| {
            loop {
                if *state & (WRITER_BIT | UPGRADABLE_BIT) != 0 {
                    return false;
                }

                // Grab WRITER_BIT if it isn't set, even if there are parked threads.
                match self.state.compare_exchange_weak(
                    *state,
                    *state | WRITER_BIT,
                    Ordering::Acquire,
                    Ordering::Relaxed,
                ) {
                    Ok(_) => return true,
                    Err(x) => *state = x,
                }
            }
        };

        // Step 1: grab exclusive ownership of WRITER_BIT
        let timed_out = !self.lock_common(
            timeout,
            TOKEN_EXCLUSIVE,
            try_lock,
            WRITER_BIT | UPGRADABLE_BIT,
        );
        if timed_out {
            return false;
        }

        // Step 2: wait for all remaining readers to exit the lock.
        self.wait_for_readers(timeout, 0)
    }

    #[cold]
    fn unlock_exclusive_slow(&self, force_fair: bool) {
        // There are threads to unpark. Try to unpark as many as we can.
        let callback = |mut new_state, result: UnparkResult| {
            // If we are using a fair unlock then we should keep the
            // rwlock locked and hand it off to the unparked threads.
            if result.unparked_threads != 0 && (force_fair || result.be_fair) {
                if result.have_more_threads {
                    new_state |= PARKED_BIT;
                }
                self.state.store(new_state, Ordering::Release);
                TOKEN_HANDOFF
            } else {
                // Clear the parked bit if there are no more parked threads.
                if result.have_more_threads {
                    self.state.store(PARKED_BIT, Ordering::Release);
                } else {
                    self.state.store(0, Ordering::Release);
                }
                TOKEN_NORMAL
            }
        };
        // SAFETY: `callback` does not panic or call into any function of `parking_lot`.
        unsafe {
            self.wake_parked_threads(0, callback);
        }
    }

    #[cold]
    fn lock_shared_slow(&self, recursive: bool, timeout: Option<Instant>) -> bool {
        let try_lock = |state: &mut usize| {
            let mut spinwait_shared = SpinWait::new();
            loop {
                // Use hardware lock elision to avoid cache conflicts when multiple
                // readers try to acquire the lock. We only do this if the lock is
                // completely empty since elision handles conflicts poorly.
                if have_elision() && *state == 0 {
                    match self.state.elision_compare_exchange_acquire(0, ONE_READER) {
                        Ok(_) => return true,
                        Err(x) => *state = x,
                    }
                }

                // This is the same condition as try_lock_shared_fast
                #[allow(clippy::collapsible_if)]
                if *state & WRITER_BIT != 0 {
                    if !recursive || *state & READERS_MASK == 0 {
                        return false;
                    }
                }

                if self
                    .state
                    .compare_exchange_weak(
                        *state,
                        state
                            .checked_add(ONE_READER)
                            .expect("RwLock reader count overflow"),
                        Ordering::Acquire,
                        Ordering::Relaxed,
                    )
                    .is_ok()
                {
                    return true;
                }

                // If there is high contention on the reader count then we want
                // to leave some time between attempts to acquire the lock to
                // let other threads make progress.
                spinwait_shared.spin_no_yield();
                *state = self.state.load(Ordering::Relaxed);
            }
        };
        self.lock_common(timeout, TOKEN_SHARED, try_lock, WRITER_BIT)
    }

    #[cold]
    fn unlock_shared_slow(&self) {
        // At this point WRITER_PARKED_BIT is set and READER_MASK is empty. We
        // just need to wake up a potentially sleeping pending writer.
        // Using the 2nd key at addr + 1
        let addr = self as *const _ as usize + 1;
        let callback = |_result: UnparkResult| {
            // Clear the WRITER_PARKED_BIT here since there can only be one
            // parked writer thread.
            self.state.fetch_and(!WRITER_PARKED_BIT, Ordering::Relaxed);
            TOKEN_NORMAL
        };
        // SAFETY:
        //   * `addr` is an address we control.
        //   * `callback` does not panic or call into any function of `parking_lot`.
        unsafe {
            parking_lot_core::unpark_one(addr, callback);
        }
    }

    #[cold]
    fn lock_upgradable_slow(&self, timeout: Option<Instant>) -> bool {
        let try_lock = |state: &mut usize| {
            let mut spinwait_shared = SpinWait::new();
            loop {
                if *state & (WRITER_BIT | UPGRADABLE_BIT) != 0 {
                    return false;
                }

                if self
                    .state
                    .compare_exchange_weak(
                        *state,
                        state
                            .checked_add(ONE_READER | UPGRADABLE_BIT)
                            .expect("RwLock reader count overflow"),
                        Ordering::Acquire,
                        Ordering::Relaxed,
                    )
                    .is_ok()
                {
                    return true;
                }

                // If there is high contention on the reader count then we want
                // to leave some time between attempts to acquire the lock to
                // let other threads make progress.
                spinwait_shared.spin_no_yield();
                *state = self.state.load(Ordering::Relaxed);
            }
        };
        self.lock_common(
            timeout,
            TOKEN_UPGRADABLE,
            try_lock,
            WRITER_BIT | UPGRADABLE_BIT,
        )
    }

    #[cold]
    fn unlock_upgradable_slow(&self, force_fair: bool) {
        // Just release the lock if there are no parked threads.
        let mut state = self.state.load(Ordering::Relaxed);
        while state & PARKED_BIT == 0 {
            match self.state.compare_exchange_weak(
                state,
                state - (ONE_READER | UPGRADABLE_BIT),
                Ordering::Release,
                Ordering::Relaxed,
            ) {
                Ok(_) => return,
                Err(x) => state = x,
            }
        }

        // There are threads to unpark. Try to unpark as many as we can.
        let callback = |new_state, result: UnparkResult| {
            // If we are using a fair unlock then we should keep the
            // rwlock locked and hand it off to the unparked threads.
            let mut state = self.state.load(Ordering::Relaxed);
            if force_fair || result.be_fair {
                // Fall back to normal unpark on overflow. Panicking is
                // not allowed in parking_lot callbacks.
                while let Some(mut new_state) =
                    (state - (ONE_READER | UPGRADABLE_BIT)).checked_add(new_state)
                {
                    if result.have_more_threads {
                        new_state |= PARKED_BIT;
                    } else {
                        new_state &= !PARKED_BIT;
                    }
                    match self.state.compare_exchange_weak(
                        state,
                        new_state,
                        Ordering::Relaxed,
                        Ordering::Relaxed,
                    ) {
                        Ok(_) => return TOKEN_HANDOFF,
                        Err(x) => state = x,
                    }
                }
            }

            // Otherwise just release the upgradable lock and update PARKED_BIT.
            loop {
                let mut new_state = state - (ONE_READER | UPGRADABLE_BIT);
                if result.have_more_threads {
                    new_state |= PARKED_BIT;
                } else {
                    new_state &= !PARKED_BIT;
                }
                match self.state.compare_exchange_weak(
                    state,
                    new_state,
                    Ordering::Relaxed,
                    Ordering::Relaxed,
                ) {
                    Ok(_) => return TOKEN_NORMAL,
                    Err(x) => state = x,
                }
            }
        };
        // SAFETY: `callback` does not panic or call into any function of `parking_lot`.
        unsafe {
            self.wake_parked_threads(0, callback);
        }
    }

    #[cold]
    fn try_upgrade_slow(&self) -> bool {
        let mut state = self.state.load(Ordering::Relaxed);
        loop {
            if state & READERS_MASK != ONE_READER {
                return false;
            }
            match self.state.compare_exchange_weak(
                state,
                state - (ONE_READER | UPGRADABLE_BIT) + WRITER_BIT,
                Ordering::Relaxed,
                Ordering::Relaxed,
            ) {
                Ok(_) => return true,
                Err(x) => state = x,
            }
        }
    }

    #[cold]
    fn upgrade_slow(&self, timeout: Option<Instant>) -> bool {
        self.deadlock_release();
        let result = self.wait_for_readers(timeout, ONE_READER | UPGRADABLE_BIT);
        self.deadlock_acquire();
        result
    }

    #[cold]
    fn downgrade_slow(&self) {
        // We only reach this point if PARKED_BIT is set.
        let callback = |_, result: UnparkResult| {
            // Clear the parked bit if there no more parked threads
            if !result.have_more_threads {
                self.state.fetch_and(!PARKED_BIT, Ordering::Relaxed);
            }
            TOKEN_NORMAL
        };
        // SAFETY: `callback` does not panic or call into any function of `parking_lot`.
        unsafe {
            self.wake_parked_threads(ONE_READER, callback);
        }
    }

    #[cold]
    fn downgrade_to_upgradable_slow(&self) {
        // We only reach this point if PARKED_BIT is set.
        let callback = |_, result: UnparkResult| {
            // Clear the parked bit if there no more parked threads
            if !result.have_more_threads {
                self.state.fetch_and(!PARKED_BIT, Ordering::Relaxed);
            }
            TOKEN_NORMAL
        };
        // SAFETY: `callback` does not panic or call into any function of `parking_lot`.
        unsafe {
            self.wake_parked_threads(ONE_READER | UPGRADABLE_BIT, callback);
        }
    }

    #[cold]
    unsafe fn bump_shared_slow(&self) {
        self.unlock_shared();
        self.lock_shared();
    }

    #[cold]
    fn bump_exclusive_slow(&self) {
        self.deadlock_release();
        self.unlock_exclusive_slow(true);
        self.lock_exclusive();
    }

    #[cold]
    fn bump_upgradable_slow(&self) {
        self.deadlock_release();
        self.unlock_upgradable_slow(true);
        self.lock_upgradable();
    }

    /// Common code for waking up parked threads after releasing `WRITER_BIT` or
    /// `UPGRADABLE_BIT`.
    ///
    /// # Safety
    ///
    /// `callback` must uphold the requirements of the `callback` parameter to
    /// `parking_lot_core::unpark_filter`. Meaning no panics or calls into any function in
    /// `parking_lot`.
    #[inline]
    unsafe fn wake_parked_threads(
        &self,
        new_state: usize,
        callback: impl FnOnce(usize, UnparkResult) -> UnparkToken,
    ) {
        // We must wake up at least one upgrader or writer if there is one,
        // otherwise they may end up parked indefinitely since unlock_shared
        // does not call wake_parked_threads.
        let new_state = Cell::new(new_state);
        let addr = self as *const _ as usize;
        let filter = |ParkToken(token)| {
            let s = new_state.get();

            // If we are waking up a writer, don't wake anything else.
            if s & WRITER_BIT != 0 {
                return FilterOp::Stop;
            }

            // Otherwise wake *all* readers and one upgrader/writer.
            if token & (UPGRADABLE_BIT | WRITER_BIT) != 0 && s & UPGRADABLE_BIT != 0 {
                // Skip writers and upgradable readers if we already have
                // a writer/upgradable reader.
                FilterOp::Skip
            } else {
                new_state.set(s + token);
                FilterOp::Unpark
            }
        };
        let callback = |result| callback(new_state.get(), result);
        // SAFETY:
        // * `addr` is an address we control.
        // * `filter` does not panic or call into any function of `parking_lot`.
        // * `callback` safety responsibility is on caller
        parking_lot_core::unpark_filter(addr, filter, callback);
    }

    // Common code for waiting for readers to exit the lock after acquiring
    // WRITER_BIT.
    #[inline]
    fn wait_for_readers(&self, timeout: Option<Instant>, prev_value: usize) -> bool {
        // At this point WRITER_BIT is already set, we just need to wait for the
        // remaining readers to exit the lock.
        let mut spinwait = SpinWait::new();
        let mut state = self.state.load(Ordering::Acquire);
        while state & READERS_MASK != 0 {
            // Spin a few times to wait for readers to exit
            if spinwait.spin() {
                state = self.state.load(Ordering::Acquire);
                continue;
            }

            // Set the parked bit
            if state & WRITER_PARKED_BIT == 0 {
                if let Err(x) = self.state.compare_exchange_weak(
                    state,
                    state | WRITER_PARKED_BIT,
                    Ordering::Acquire,
                    Ordering::Acquire,
                ) {
                    state = x;
                    continue;
                }
            }

            // Park our thread until we are woken up by an unlock
            // Using the 2nd key at addr + 1
            let addr = self as *const _ as usize + 1;
            let validate = || {
                let state = self.state.load(Ordering::Relaxed);
                state & READERS_MASK != 0 && state & WRITER_PARKED_BIT != 0
            };
            let before_sleep = || {};
            let timed_out = |_, was_last_thread: bool| {
                // Clear the parked bit while holding the queue lock. There can
                // only be one thread parked (this one).
                debug_assert!(was_last_thread);
                self.state.fetch_and(!WRITER_PARKED_BIT, Ordering::Relaxed);
            };
            // SAFETY:
            //   * `addr` is an address we control.
            //   * `validate`/`timed_out` does not panic or call into any function of `parking_lot`.
            //   * `before_sleep` does not call `park`, nor does it panic.
            let park_result = unsafe {
                parking_lot_core::park(
                    addr,
                    validate,
                    before_sleep,
                    timed_out,
                    TOKEN_EXCLUSIVE,
                    timeout,
                )
            };
            match park_result {
                // We still need to re-check the state if we are unparked
                // since a previous writer timing-out could have allowed
                // another reader to sneak in before we parked.
                ParkResult::Unparked(_) | ParkResult::Invalid => {
                    state = self.state.load(Ordering::Acquire);
                    continue;
                }

                // Timeout expired
                ParkResult::TimedOut => {
                    // We need to release WRITER_BIT and revert back to
                    // our previous value. We also wake up any threads that
                    // might be waiting on WRITER_BIT.
                    let state = self
                        .state
                        .fetch_add(prev_value.wrapping_sub(WRITER_BIT), Ordering::Relaxed);
                    if state & PARKED_BIT != 0 {
                        let callback = |_, result: UnparkResult| {
                            // Clear the parked bit if there no more parked threads
                            if !result.have_more_threads {
                                self.state.fetch_and(!PARKED_BIT, Ordering::Relaxed);
                            }
                            TOKEN_NORMAL
                        };
                        // SAFETY: `callback` does not panic or call any function of `parking_lot`.
                        unsafe {
                            self.wake_parked_threads(prev_value, callback);
                        }
                    }
                    return false;
                }
            }
        }
        true
    }

    /// Common code for acquiring a lock
    #[inline]
    fn lock_common(
        &self,
        timeout: Option<Instant>,
        token: ParkToken,
        mut try_lock: impl FnMut(&mut usize) -> bool,
        validate_flags: usize,
    ) -> bool {
        let mut spinwait = SpinWait::new();
        let mut state = self.state.load(Ordering::Relaxed);
        loop {
            // Attempt to grab the lock
            if try_lock(&mut state) {
                return true;
            }

            // If there are no parked threads, try spinning a few times.
            if state & (PARKED_BIT | WRITER_PARKED_BIT) == 0 && spinwait.spin() {
                state = self.state.load(Ordering::Relaxed);
                continue;
            }

            // Set the parked bit
            if state & PARKED_BIT == 0 {
                if let Err(x) = self.state.compare_exchange_weak(
                    state,
                    state | PARKED_BIT,
                    Ordering::Relaxed,
                    Ordering::Relaxed,
                ) {
                    state = x;
                    continue;
                }
            }

            // Park our thread until we are woken up by an unlock
            let addr = self as *const _ as usize;
            let validate = || {
                let state = self.state.load(Ordering::Relaxed);
                state & PARKED_BIT != 0 && (state & validate_flags != 0)
            };
            let before_sleep = || {};
            let timed_out = |_, was_last_thread| {
                // Clear the parked bit if we were the last parked thread
                if was_last_thread {
                    self.state.fetch_and(!PARKED_BIT, Ordering::Relaxed);
                }
            };

            // SAFETY:
            // * `addr` is an address we control.
            // * `validate`/`timed_out` does not panic or call into any function of `parking_lot`.
            // * `before_sleep` does not call `park`, nor does it panic.
            let park_result = unsafe {
                parking_lot_core::park(addr, validate, before_sleep, timed_out, token, timeout)
            };
            match park_result {
                // The thread that unparked us passed the lock on to us
                // directly without unlocking it.
                ParkResult::Unparked(TOKEN_HANDOFF) => return true,

                // We were unparked normally, try acquiring the lock again
                ParkResult::Unparked(_) => (),

                // The validation function failed, try locking again
                ParkResult::Invalid => (),

                // Timeout expired
                ParkResult::TimedOut => return false,
            }

            // Loop back and try locking again
            spinwait.reset();
            state = self.state.load(Ordering::Relaxed);
        }
    }

    #[inline]
    fn deadlock_acquire(&self) {
        unsafe { deadlock::acquire_resource(self as *const _ as usize) };
        unsafe { deadlock::acquire_resource(self as *const _ as usize + 1) };
    }

    #[inline]
    fn deadlock_release(&self) {
        unsafe { deadlock::release_resource(self as *const _ as usize) };
        unsafe { deadlock::release_resource(self as *const _ as usize + 1) };
    }
}
