#![no_main]
//! Coverage-guided target for cache keys (C02 oracle: distinct tuples miss, equal tuples hit).
use libfuzzer_sys::fuzz_target;
use vharness::infra::Tier;

fuzz_target!(|data: &[u8]| {
    vharness::infra::install_panic_hook_once();
    let out = vharness::c02::run_case(data, Tier::Thorough);
    if let Some(v) = out.violation {
        eprintln!("FUZZ-VIOLATION property=C02 signature={} expected={} observed={}", v.signature, v.expected, v.observed);
        panic!("violation {}", v.signature);
    }
});
