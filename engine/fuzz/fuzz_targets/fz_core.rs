#![no_main]
//! Coverage-guided layer-1 target: first byte selects the property focus, the rest is the
//! same byte encoding the proptest-driven checks decode (configuration + history).  The
//! semantic oracle (reference model) runs inside the target; state is reset per iteration
//! by the adapter (harness-owned storage is cleared when the engine is constructed).
use libfuzzer_sys::fuzz_target;
use vharness::core_l1::{run_case, Focus};
use vharness::infra::Tier;

fuzz_target!(|data: &[u8]| {
    if data.is_empty() {
        return;
    }
    vharness::infra::install_panic_hook_once();
    let focus = [Focus::C01, Focus::C03, Focus::C04, Focus::C05, Focus::C06, Focus::C07, Focus::C08, Focus::C15, Focus::C16][(data[0] as usize) % 9];
    let only = std::env::var("FZ_FOCUS").ok();
    if let Some(o) = only {
        if o != focus.id() {
            return;
        }
    }
    let out = run_case(&data[1..], focus, Tier::Thorough);
    if let Some(v) = out.violation {
        eprintln!("FUZZ-VIOLATION property={} signature={} step={} expected={} observed={}", focus.id(), v.signature, v.step, v.expected, v.observed);
        panic!("violation {}", v.signature);
    }
});
