#![no_main]
//! Coverage-guided target for the attribute parsers (C19 parser tier oracle).
use libfuzzer_sys::fuzz_target;
use vharness::infra::Tier;

fuzz_target!(|data: &[u8]| {
    vharness::infra::install_panic_hook_once();
    let out = vharness::attrs::run_case(data, Tier::Thorough);
    if let Some(v) = out.violation {
        eprintln!("FUZZ-VIOLATION property=C19 signature={} expected={} observed={}", v.signature, v.expected, v.observed);
        panic!("violation {}", v.signature);
    }
});
