#!/usr/bin/env python3
"""Create scratch worktrees of /repo under /tmp/seed/<id> with a TASK.md for an adversarial
(seeded-defect) sub-agent.  The task text contains only the property texts and an 'angle';
nothing from /verif.   usage: mk_seed_tasks.py <json file: {id: angle}>"""
import json, subprocess, sys

props = [json.loads(l) for l in open('/verif/properties.jsonl')]
plist = "\n\n".join(f"**{p['id']} — {p['title']}**\n{p['statement']}\n*Quantified over:* {p['quantifier']['text']}" for p in props)
angles = json.load(open(sys.argv[1]))
for aid, a in angles.items():
    wt = f"/tmp/seed/{aid}"
    subprocess.run(["git", "-C", "/repo", "worktree", "add", "-q", "--detach", wt, "HEAD"], check=True)
    text = f"""# Task

You are helping test a verification effort for the Rust memoization library `cachelito` (proc macros `#[cache]` / `#[cache_async]` in cachelito-macros / cachelito-async-macros with shared attribute parsing in cachelito-macro-utils; core caches `GlobalCache` (RwLock<HashMap> + Mutex<VecDeque> order queue), `ThreadLocalCache`, `AsyncGlobalCache` (DashMap + Mutex<VecDeque>) in cachelito-core; FIFO/LRU/LFU/ARC/Random/TLRU eviction, TTL, memory limits, tag/event/dependency invalidation, statistics registry).

Your own scratch git worktree of the library is at {wt} (a cargo workspace; build and test OFFLINE only: always pass `--offline` to cargo; there is no network). Work ONLY inside {wt}. Do NOT read, list or touch /verif or /repo or any other /tmp/seed/* directory. Do NOT use `git stash`; flip your change with `git apply -R _out/patch.diff` / `git apply _out/patch.diff`.

The library is checked by automated property-based checks against the 20 semantic properties listed at the end. You play the adversary: choose ONE of the properties - the one you believe is hardest to check thoroughly from the outside - and write ONE small, realistic change to the library's source (the kind of slip a maintainer could make in a refactor or optimisation) that BREAKS it while being as hard to notice as you can make it.

Your angle: {a}

Requirements:
1. the whole workspace still compiles and the EXISTING test suite still passes unchanged: `cd {wt} && cargo test --workspace --offline --no-fail-fast` (a test using wall-clock ttl sleeps may flake under load - re-run it alone before blaming your change); do not edit, delete or add tests in the existing test files;
2. the breakage must be a genuine violation of the chosen property as written (not of something the property leaves open, such as tie-breaking), and it must need something SPECIFIC to manifest - not something ordinary use exposes at once;
3. provide a DEMONSTRATION: a new standalone test file (under {wt}/tests/, {wt}/cachelito-async/tests/ or {wt}/cachelito-core/tests/) that FAILS with your change and PASSES on the unmodified code; verify both directions yourself.

Deliverables, written into {wt}/_out/ :
- `patch.diff`: `git diff` of the library source change only (must apply with `git apply` to a clean checkout of the same commit);
- a copy of the demonstration test file, and `demo_cmd.txt` whose LAST line is the exact command that runs it, in the form `cd {wt} && cargo test --offline ...`;
- `meta.json`: {{"property": "<C01..C20>", "summary": "<what the change does>", "needs": "<what specific situation is needed for it to manifest>", "files_changed": [...], "verified": {{"suite_passes_with_change": true/false, "demo_fails_with_change": true/false, "demo_passes_without_change": true/false}}}}.

Leave the worktree with the change APPLIED and the demo file present. Reply with a short summary. Be honest about anything you could not verify.

## The 20 properties

{plist}
"""
    open(f"{wt}/TASK.md", "w").write(text)
    print("created", wt)
