#!/bin/bash
# re-run the property-preserving patches against a list of checks (false-alarm probe)
# usage: tools/neutral_rerun.sh "N1 N2 ..." "C03 C07 ..."
cd /verif
for n in $1; do
  if ! git -C /repo apply --check /verif/neutral/$n/patch.diff 2>/dev/null; then echo "$n: patch does not apply to the current tree (skipped)"; continue; fi
  SEEDED_DIR=/verif/neutral python3 tools/seeded.py check $n $2 2>&1 | grep -v "exit 0"
done
