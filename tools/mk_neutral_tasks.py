#!/usr/bin/env python3
"""Create scratch worktrees of /repo under /tmp/seed/<id> with a TASK.md for a sub-agent that
writes a property-PRESERVING refactoring (false-alarm probe).  usage: mk_neutral_tasks.py <json {id: focus}>"""
import json, subprocess, sys
props = [json.loads(l) for l in open('/verif/properties.jsonl')]
plist2 = "\n\n".join(f"**{p['id']} — {p['title']}**\n{p['statement']}" for p in props)
for nid, f in json.load(open(sys.argv[1])).items():
    wt = f"/tmp/seed/{nid}"
    subprocess.run(["git", "-C", "/repo", "worktree", "add", "-q", "--detach", wt, "HEAD"], check=True)
    text = f"""# Task

You are helping test a verification effort for the Rust memoization library `cachelito` (proc macros `#[cache]` / `#[cache_async]` in cachelito-macros / cachelito-async-macros with shared attribute parsing in cachelito-macro-utils; core caches `GlobalCache` (RwLock<HashMap> + Mutex<VecDeque> order queue), `ThreadLocalCache`, `AsyncGlobalCache` (DashMap + Mutex<VecDeque>) in cachelito-core; FIFO/LRU/LFU/ARC/Random/TLRU eviction, TTL, memory limits, tag/event/dependency invalidation, statistics registry).

Your own scratch git worktree of the library is at {wt} (a cargo workspace; build and test OFFLINE only: always pass `--offline` to cargo; there is no network). Work ONLY inside {wt}. Do NOT read, list or touch /verif or /repo or any other /tmp/seed/* directory. Do NOT use `git stash`.

The goal is the OPPOSITE of seeding a bug. The library is checked against the 20 semantic properties listed below. Write ONE realistic refactoring / optimisation that **changes internal or incidental behaviour as much as you reasonably can while keeping ALL 20 properties true**, so that an over-fitted checker - one that demands more than the properties state - would raise a false alarm.

Your focus area: {f}

Requirements:
1. the workspace compiles and the EXISTING test suite passes unchanged: `cd {wt} && cargo test --workspace --offline --no-fail-fast` (a test using wall-clock ttl sleeps may flake under load - re-run it alone before blaming your change); do not edit existing tests;
2. argue carefully why each of the 20 properties still holds (sequential histories, all three flavours, concurrency, lock order: nothing may deadlock and concurrent use must stay consistent; user code - bodies, predicates, check functions - that calls back into the library for OTHER caches must keep working). If you are not sure a property still holds, choose a smaller change. Do NOT change the format of cache key strings, the public API, the documented formulas, or anything the properties state explicitly;
3. the change should be non-trivial (tens to hundreds of lines) but must remain a plausible maintainer refactoring.

Deliverables, written into {wt}/_out/ :
- `patch.diff`: output of `git diff` (library source only; must apply with `git apply` to a clean checkout of the same commit);
- `meta.json`: {{"kind": "neutral", "summary": "<what the change does>", "behaviour_that_changes": "<what is observably different>", "why_properties_hold": "<argument, naming the properties that come closest to being affected>", "files_changed": [...], "verified": {{"suite_passes_with_change": true/false}}}}.

Leave the worktree with the change APPLIED. Reply with a short summary.

## The 20 properties

{plist2}
"""
    open(f"{wt}/TASK.md", "w").write(text)
    print("created", wt)
