#!/usr/bin/env python3
"""Seeded-change bookkeeping.

  tools/seeded.py collect <ID> [<name>]   copy /tmp/seed/<ID>/_out into /verif/seeded/<name or ID>/
  tools/seeded.py confirm <ID> [<name>]   in the scratch worktree: demo fails with the change, passes without,
                                          existing suite passes with the change; result -> meta.json
  tools/seeded.py check <name> [checks..] apply seeded/<name>/patch.diff to /repo, run checks (default: all), revert
"""
import json, os, shutil, subprocess, sys, time

SEED = "/tmp/seed"
OUT = os.environ.get("SEEDED_DIR", "/verif/seeded")
ENV = dict(os.environ, VERIF_REPLAY_DIR="/verif/work/seeded_replays", VERIF_EVIDENCE_DIR="/verif/work/seeded_evidence", CARGO_NET_OFFLINE="true")


def sh(cmd, cwd=None, env=None, timeout=None):
    return subprocess.run(cmd, shell=True, cwd=cwd, capture_output=True, text=True, env=env or ENV, timeout=timeout)


def collect(wid, name):
    src = f"{SEED}/{wid}/_out"
    dst = f"{OUT}/{name}"
    os.makedirs(dst, exist_ok=True)
    for f in os.listdir(src):
        shutil.copy(os.path.join(src, f), os.path.join(dst, f))
    print("collected", dst, os.listdir(dst))


def confirm(wid, name):
    wt = f"{SEED}/{wid}"
    dst = f"{OUT}/{name}"
    meta = json.load(open(f"{dst}/meta.json"))
    demo_cmd = open(f"{dst}/demo_cmd.txt").read().strip().splitlines()[-1]
    if "cargo" not in demo_cmd:
        demo_cmd = [l for l in open(f"{dst}/demo_cmd.txt").read().splitlines() if "cargo" in l][-1]
    res = {}
    # make sure the change is applied
    st = sh("git status --porcelain", cwd=wt).stdout
    assert any(l.startswith(" M") for l in st.splitlines()), f"change not applied in {wt}: {st}"
    r = sh(demo_cmd, cwd=wt, timeout=1800)
    res["demo_fails_with_change"] = r.returncode != 0
    # flip with the recorded patch (git stash is shared between worktrees: not safe in parallel)
    patch = f"{dst}/patch.diff"
    assert sh(f"git apply -R --check {patch}", cwd=wt).returncode == 0, "worktree does not contain exactly the recorded patch"
    sh(f"git apply -R {patch}", cwd=wt)
    assert not any(l.startswith(" M") for l in sh("git status --porcelain", cwd=wt).stdout.splitlines()), "source still modified after reverting the patch"
    r = sh(demo_cmd, cwd=wt, timeout=1800)
    res["demo_passes_without_change"] = r.returncode == 0
    sh(f"git apply {patch}", cwd=wt)
    # existing suite with the change, demo moved aside
    untracked = [l[3:] for l in sh("git status --porcelain -uall", cwd=wt).stdout.splitlines() if l.startswith("??") and l[3:].endswith(".rs")]
    aside = []
    for u in untracked:
        p = os.path.join(wt, u)
        shutil.move(p, p + ".aside")
        aside.append(p)
    r = sh("cargo test --workspace --no-fail-fast --offline", cwd=wt, timeout=3600)
    res["suite_passes_with_change"] = r.returncode == 0
    if r.returncode != 0:
        res["suite_failures"] = [l for l in (r.stdout + r.stderr).splitlines() if "FAILED" in l or "failed" in l][:10]
    for p in aside:
        shutil.move(p + ".aside", p)
    meta["confirmed_by_verifier"] = res
    meta["confirmed_at_repo_commit"] = sh("git rev-parse --short HEAD", cwd=wt).stdout.strip()
    json.dump(meta, open(f"{dst}/meta.json", "w"), indent=1)
    print(name, res)


def check(name, checks):
    dst = f"{OUT}/{name}"
    assert sh("git status --porcelain", cwd="/repo").stdout.strip() == "", "/repo dirty"
    r = sh(f"git apply {dst}/patch.diff", cwd="/repo")
    if r.returncode != 0:
        print("patch does not apply:", r.stderr)
        return
    if not checks:
        checks = [f"C{i:02d}" for i in range(1, 21)]
    results = {}
    try:
        for c in checks:
            t0 = time.time()
            r = sh(f"/verif/run check {c} --tier quick")
            sig = ""
            if r.returncode == 1:
                sig = ";".join(l.split("signature=")[-1] for l in r.stdout.splitlines() if l.startswith("VIOLATION"))
            elif r.returncode == 2:
                sig = "exit2: " + (r.stderr.strip().splitlines() or ["?"])[-1][:100]
            results[c] = {"exit": r.returncode, "signature": sig, "wall_s": round(time.time() - t0)}
            print(f"  {name} {c}: exit {r.returncode} {sig}", flush=True)
    finally:
        sh("git checkout -- .", cwd="/repo")
        sh("git clean -fdq", cwd="/repo")
    meta = json.load(open(f"{dst}/meta.json"))
    meta.setdefault("checks_run", {}).update(results)
    meta["detected_by"] = sorted(c for c, v in meta["checks_run"].items() if v["exit"] == 1)
    json.dump(meta, open(f"{dst}/meta.json", "w"), indent=1)
    print(name, "detected by", meta["detected_by"])


if __name__ == "__main__":
    cmd = sys.argv[1]
    if cmd == "collect":
        collect(sys.argv[2], sys.argv[3] if len(sys.argv) > 3 else sys.argv[2])
    elif cmd == "confirm":
        confirm(sys.argv[2], sys.argv[3] if len(sys.argv) > 3 else sys.argv[2])
    elif cmd == "check":
        check(sys.argv[2], sys.argv[3:])
