#!/usr/bin/env python3
"""Regenerate DESIGN.md section 7 (sensitivity) from work/mutants_all.json and seeded/*/meta.json."""
import json, glob, os, re
D = "/verif/DESIGN.md"
rows = []
try:
    res = json.load(open("/verif/tools/mutants_results.json"))
except Exception:
    res = []
import importlib.util
spec = importlib.util.spec_from_file_location("mutants", "/verif/tools/mutants.py")
m = importlib.util.module_from_spec(spec); spec.loader.exec_module(m)
files = {name: sorted({e[0] for e in edits}) for name, props, edits in m.MUTANTS}
expected = {name: props for name, props, edits in m.MUTANTS}
lines = []
lines.append("## 7. Sensitivity: which checks catch which changes\n")
lines.append("Two sources.  (a) `tools/mutants.py`: hand-written property-breaking edits (the planned list of\nthe design plus the ones added while building), each applied to /repo alone, the expected checks\nrun at the quick tier, the tree restored.  (b) `seeded/<id>/`: changes written by independent\nsub-agents that saw only the text of one property and a scratch worktree (nothing from /verif);\neach was confirmed by the verifier (existing suite passes with the change, the agent's\ndemonstration fails with it and passes without) before the checks were run against it.\n")
lines.append("### (a) hand-written mutants (quick tier, one run)\n")
lines.append("| mutant | files | result | killed by (signature of the first report) |")
lines.append("|---|---|---|---|")
killed = survived = 0
for name, status, info in res:
    f = ", ".join(os.path.basename(x) if 'lib.rs' not in x else x.split('/')[0] for x in files.get(name, []))
    if status == "KILLED": killed += 1
    elif status == "SURVIVED": survived += 1
    by = " ".join(info) if isinstance(info, list) else str(info)
    lines.append(f"| `{name}` | {f} | {status} | {by[:200]} |")
lines.append(f"\n{killed} killed, {survived} survived of {len(res)} (mutants that do not compile or are behaviourally equivalent were replaced, appendix F7).\n")
lines.append("### (b) independently seeded changes\n")
lines.append("| seed | property given | change (agent's summary) | needs | detected by |")
lines.append("|---|---|---|---|---|")
for d in sorted(glob.glob("/verif/seeded/*/meta.json")):
    mj = json.load(open(d))
    name = os.path.basename(os.path.dirname(d))
    det = ", ".join(f"{c} `{mj['checks_run'][c]['signature'].split(';')[0]}`" for c in mj.get("detected_by", [])) or "**none**"
    summ = re.sub(r"\s+", " ", str(mj.get("summary", "")))[:260]
    needs = re.sub(r"\s+", " ", str(mj.get("needs", "")))[:220]
    lines.append(f"| {name} | {mj.get('property')} | {summ} | {needs} | {det} |")
lines.append("")
lines.append("Strengthening done because of a miss: see the *[as built]* notes of C11 and C15 in section 5 and appendix G.\n")
lines.append("---------------------------------------------------------------------------------------\n")
s = open(D).read()
a = s.index("## 7. Sensitivity")
b = s.index("## 8. Hooks")
s = s[:a] + "\n".join(lines) + "\n" + s[b:]
open(D, "w").write(s)
print("section 7 regenerated:", killed, "killed", survived, "survived", len(glob.glob('/verif/seeded/*/meta.json')), "seeds")
