#!/usr/bin/env python3
"""Regenerate /verif/MANIFEST.json from the table below (keeps it schema-valid)."""
import json, subprocess, sys

LEVEL_TEXT = {
 "C01": "Generated-history search: every lookup and every call of a decorated function is compared with a reference model / undecorated twin over the full configuration product; finds wrong, stale or cross-key values on any explored history, proves nothing beyond the explored bound.",
 "C02": "Generated pairs of argument tuples (half of them adversarially derived: shifted boundaries, injected separators/quotes, re-split renderings, swapped positions, changed receiver) checked in both directions (distinct tuples miss, equal tuples hit) on sync and async key builders.",
 "C03": "Generated call sequences with execution counters (sequential, per thread, and 2-3 scheduled concurrent callers): executions per tuple and hit statistics compared with the model.",
 "C04": "Step-wise comparison of the real store with the reference model after every generated operation: size bound and exactly-one-victim rule, all policies x flavours.",
 "C05": "Step-wise check of the summed independent footprint against max_memory, oversize rejection, and explainability of the removed set by evictions that stop as soon as the total fits; differential on estimate_memory().",
 "C06": "Exact virtual-clock histories around the ttl boundary (T-1ns, T, T+1ns, whole seconds, sub-second phases) against the model's serve/expire/purge rules.",
 "C07": "Every eviction's victim compared with the unique FIFO / LRU victim of the model, under entry and memory limits, all flavours.",
 "C08": "Every eviction's victim compared with the set of score minimisers of the documented formulas (either competition convention, ties free).",
 "C09": "Generated Ok/Err scripts per key against the rule 'store iff Ok' with execution counters, both Result spellings, all flavours.",
 "C10": "Generated accept/reject scripts for cache_if with predicate-call logs (exactly one call per execution, right key and value).",
 "C11": "Generated staleness scripts for invalidate_on with version-stamped bodies (refresh visible, refreshed value served).",
 "C12": "Fresh process per generated scenario: registry model over overlapping tag/event/dependency/name assignments, counts and emptiness after each request.",
 "C13": "Generated key-subset predicates and follow-up histories: exactly the matching keys disappear and later overflows behave as if they had never been stored.",
 "C14": "Generated partitions of call histories over 2-4 threads with per-thread models (thread scope) or one shared model (global/async).",
 "C15": "stats_registry compared with the model's lookup/hit counts after every call, plus quiescence invariants under free-running and scheduled threads.",
 "C16": "Sweep over the complete configuration table with catch_unwind around every operation.",
 "C17": "Deterministic scheduler over instrumented locks: generated programs x generated schedules, deadlock = no runnable thread; bounded-exhaustive enumeration for canonical two-thread programs.",
 "C18": "As C17 plus value checks inside threads and a generated sequential probe at quiescence.",
 "C19": "Generated attribute lists against the parser, generated programs compiled and compared with hand-wired core caches, generated invalid lists that must fail to compile.",
 "C20": "Manual polling of gated async bodies: every poll boundary as suspension/cancellation point, generated interleaved programs, lock state tracked by the scheduler.",
}

CHECKS = {
 # id: (technique, design_ref, level_note)
}

def load_table():
    import importlib.util, os
    p = os.path.join(os.path.dirname(__file__), "manifest_table.json")
    return json.load(open(p))

def main():
    table = load_table()
    props = [json.loads(l) for l in open("/verif/properties.jsonl")]
    ids = [p["id"] for p in props]
    checks = []
    na = []
    for pid in ids:
        row = table["checks"].get(pid)
        if row is None:
            na.append({"property_id": pid, "reason": table["not_applicable"].get(pid, "check not yet built in this revision of /verif (work in progress; see DESIGN.md section 5 for the planned design)")})
            continue
        checks.append({
            "property_id": pid,
            "quick_cmd": f"./run check {pid} --tier quick",
            "thorough_cmd": f"./run check {pid} --tier thorough",
            "evidence_file": f"/verif/evidence/{pid}.json",
            "replay_cmd_template": "./run replay {path}",
            "engine": row["engine"],
            "level_claimed": {"category": "exploration", "text": LEVEL_TEXT[pid], "design_ref": row.get("design_ref", f"DESIGN.md section 5, {pid}")},
            "level_note": row["level_note"],
            "technique": row["technique"],
        })
    m = {
        "version": 1,
        "setup_cmd": "./run setup",
        "hooks": table["hooks"],
        "engines": table["engines"],
        "checks": checks,
        "notes": table["notes"],
        "not_applicable": na,
    }
    json.dump(m, open("/verif/MANIFEST.json", "w"), indent=1)
    print(f"MANIFEST.json: {len(checks)} checks, {len(na)} not claimed")

if __name__ == "__main__":
    main()
