#!/usr/bin/env python3
"""Sensitivity campaign: apply hand-written property-breaking edits to /repo one at a time,
run the checks that should notice, and restore the tree.

usage: tools/mutants.py [name-substring ...] [--tier quick] [--all-checks]

Each mutant: (name, expected-detecting properties, [(file, old, new), ...]).
A mutant is *killed* when at least one of the expected checks exits 1 with a VIOLATION line.
The tree is restored with `git checkout -- .` after every mutant (and on Ctrl-C).
"""
import subprocess, sys, os, json, time

REPO = "/repo"
G = "cachelito-core/src/global_cache.rs"
T = "cachelito-core/src/thread_local_cache.rs"
A = "cachelito-core/src/async_global_cache.rs"
U = "cachelito-core/src/utils.rs"
E = "cachelito-core/src/cache_entry.rs"
MU = "cachelito-macro-utils/src/lib.rs"
MS = "cachelito-macros/src/lib.rs"
MA = "cachelito-async-macros/src/lib.rs"
INV = "cachelito-core/src/invalidation.rs"
ME = "cachelito-core/src/memory_estimator.rs"

MUTANTS = [
 ("c02_sync_key_no_separator", ["C02"], [(MU, '''                    __key_parts.push((#arg_pats).to_cache_key());
                )*
                __key_parts.join("|")
            }}
        }
    } else if arg_pats.is_empty() {
        quote! {{ String::new() }}
    } else {
        quote! {{
            use cachelito_core::CacheableKey;''', '''                    __key_parts.push((#arg_pats).to_cache_key());
                )*
                __key_parts.join("")
            }}
        }
    } else if arg_pats.is_empty() {
        quote! {{ String::new() }}
    } else {
        quote! {{
            use cachelito_core::CacheableKey;''')]),
 ("c02_sync_key_no_separator_free_fn", ["C02"], [(MU, '''            let mut __key_parts = Vec::new();
            #(
                __key_parts.push((#arg_pats).to_cache_key());
            )*
            __key_parts.join("|")''', '''            let mut __key_parts = Vec::new();
            #(
                __key_parts.push((#arg_pats).to_cache_key());
            )*
            __key_parts.join("")''')]),
 ("c02_async_key_no_separator", ["C02"], [(MU, '''            let mut __key_parts = Vec::new();
            #(
                __key_parts.push(format!("{:?}", #arg_pats));
            )*
            __key_parts.join("|")''', '''            let mut __key_parts = Vec::new();
            #(
                __key_parts.push(format!("{:?}", #arg_pats));
            )*
            __key_parts.join("")''')]),
 ("c04_global_random_keeps_victim", ["C04"], [(G, '''                            if let Some(evict_key) = o.remove(pos) {
                                let mut map_write = self.map.write();
                                map_write.remove(&evict_key);
                            }
                        }
                    }
                    EvictionPolicy::FIFO | EvictionPolicy::LRU => {
                        // Keep trying''', '''                            if let Some(evict_key) = o.remove(pos) {
                                let map_write = self.map.write();
                                let _ = (&map_write, &evict_key);
                            }
                        }
                    }
                    EvictionPolicy::FIFO | EvictionPolicy::LRU => {
                        // Keep trying''')]),
 ("c04_global_expired_left_in_queue", ["C04", "C06"], [(G, '''            let mut map_write = self.map.write();
            remove_key_from_global_cache(&mut map_write, &mut o, key);
            #[cfg(feature = "stats")]
            self.stats.record_miss();''', '''            let mut map_write = self.map.write();
            map_write.remove(key);
            let _ = &mut o;
            #[cfg(feature = "stats")]
            self.stats.record_miss();''')]),
 ("c04_global_restore_duplicates_queue", ["C04"], [(G, '''        self.map.write().insert(key_s.clone(), entry);

        let mut o = self.order.lock();
        if let Some(pos) = o.iter().position(|k| *k == key_s) {
            o.remove(pos);
        }
        o.push_back(key_s.clone());

        // Always handle entry-count limits''', '''        self.map.write().insert(key_s.clone(), entry);

        let mut o = self.order.lock();
        o.push_back(key_s.clone());

        // Always handle entry-count limits''')]),
 ("c04_global_overflow_ge", ["C04"], [(G, "            if o.len() > limit {", "            if o.len() >= limit {")]),
 ("c04_async_overflow_gt", ["C04"], [(A, "            if self.cache.len() >= limit {", "            if self.cache.len() > limit {")]),
 ("c04_thread_overflow_ge", ["C04"], [(T, "            if order.len() > limit {", "            if order.len() >= limit {")]),
 ("c06_sync_expiry_gt", ["C06"], [(E, "self.inserted_at.elapsed().as_secs() >= ttl_secs", "self.inserted_at.elapsed().as_secs() > ttl_secs")]),
 ("c06_async_expiry_gt", ["C06"], [(A, "                age >= ttl\n", "                age > ttl\n")]),
 ("c06_async_expired_not_removed", ["C06"], [(A, '''            let mut order = self.order.lock();
            self.cache.remove(key);
            order.retain(|k| k != key);''', '''            let mut order = self.order.lock();
            order.retain(|k| k != key);''')]),
 ("c08_global_tlru_hits_not_counted", ["C08"], [(G, '''                    move_key_to_end(&mut self.order.lock(), key);
                    self.increment_frequency(key);
                }
                EvictionPolicy::FIFO | EvictionPolicy::Random => {''', '''                    move_key_to_end(&mut self.order.lock(), key);
                }
                EvictionPolicy::FIFO | EvictionPolicy::Random => {''')]),
 ("c08_async_arc_ignores_recency", ["C08"], [(A, '''                let position_weight = (idx + 1) as f64;
                let score = frequency * position_weight;''', '''                let position_weight = 1.0 + 0.0 * (idx as f64);
                let score = frequency * position_weight;''')]),
 ("c08_async_tlru_power_to_product", ["C08"], [(A, "                        frequency.powf(weight)", "                        frequency * weight")]),
 ("c08_async_lfu_max_instead_of_min", ["C08"], [(A, '''                if entry.2 < min_freq {
                    min_freq = entry.2;''', '''                if min_freq == u64::MAX || entry.2 > min_freq {
                    min_freq = entry.2;''')]),
 ("c09_sync_std_result_not_recognised", ["C09"], [(MS, '''        s.starts_with("Result<") || s.starts_with("std::result::Result<")''', '''        s.starts_with("Result<")''')]),
 ("c09_async_std_result_not_recognised", ["C09"], [(MA, '''        if s.starts_with("Result<") || s.starts_with("std::result::Result<") {''', '''        if s.starts_with("Result<") {''')]),
 ("c09_thread_insert_result_caches_err", ["C09"], [(T, '''    pub fn insert_result_with_memory(&self, key: &str, value: &Result<T, E>) {
        if let Ok(val) = value {
            self.insert_with_memory(key, Ok(val.clone()));
        }''', '''    pub fn insert_result_with_memory(&self, key: &str, value: &Result<T, E>) {
        if let Ok(val) = value {
            self.insert_with_memory(key, Ok(val.clone()));
        } else {
            self.insert_with_memory(key, value.clone());
        }''')]),
 ("c01_async_store_ignored_on_existing_key", ["C01", "C11"], [(A, '''        if !self.renew_existing_key(key, &mut order) {
            // Handle entry-count limits
            self.handle_entry_limit_eviction(&mut order);
        }''', '''        if self.cache.contains_key(key) {
            return;
        }
        if !self.renew_existing_key(key, &mut order) {
            // Handle entry-count limits
            self.handle_entry_limit_eviction(&mut order);
        }''')]),
 ("c04_async_restore_keeps_old_queue_entry", ["C04"], [(A, '''        if self.cache.contains_key(key) {
            order.retain(|k| k != key);
            true''', '''        if self.cache.contains_key(key) {
            true''')]),
 ("c04_async_restore_into_full_cache_evicts", ["C04"], [(A, '''        if !self.renew_existing_key(key, &mut order) {
            // Handle entry-count limits
            self.handle_entry_limit_eviction(&mut order);
        }''', '''        let _ = self.renew_existing_key(key, &mut order);
        self.handle_entry_limit_eviction(&mut order);''')]),
 ("c03_async_replace_by_remove_then_insert", ["C03"], [(A, '''        if self.cache.contains_key(key) {
            order.retain(|k| k != key);
            true''', '''        if self.cache.remove(key).is_some() {
            order.retain(|k| k != key);
            false''')]),
 ("c05_async_replace_counts_old_value", ["C05"], [(A, '''                    .filter(|entry| entry.key() != key)
''', '''''')]),
 ("c01_thread_store_truncated_key", ["C01"], [(T, '''    pub fn insert(&self, key: &str, value: R) {
        let key = key.to_string();''', '''    pub fn insert(&self, key: &str, value: R) {
        let key = if key.len() > 6 { key[..6].to_string() } else { key.to_string() };'''), (T, '''            let c = c.borrow();
            if let Some(entry) = c.get(key) {
                if entry.is_expired(self.ttl) {''', '''            let c = c.borrow();
            let key = if key.len() > 6 { &key[..6] } else { key };
            if let Some(entry) = c.get(key) {
                if entry.is_expired(self.ttl) {''')]),
 ("c01_global_get_returns_neighbour_on_miss", ["C01"], [(G, '''            if let Some(entry) = m.get(key) {
                if entry.is_expired(self.ttl) {
                    expired = true;
                } else {
                    result = Some(entry.value.clone());
                }
            }''', '''            if let Some(entry) = m.get(key) {
                if entry.is_expired(self.ttl) {
                    expired = true;
                } else {
                    result = Some(entry.value.clone());
                }
            } else if m.len() >= 3 {
                result = m.values().next().map(|e| e.value.clone());
            }''')]),
 ("c03_thread_get_truncated_key", ["C03", "C04"], [(T, '''            let c = c.borrow();
            if let Some(entry) = c.get(key) {
                if entry.is_expired(self.ttl) {''', '''            let c = c.borrow();
            let key = if key.len() > 6 { &key[..6] } else { key };
            if let Some(entry) = c.get(key) {
                if entry.is_expired(self.ttl) {''')]),
 ("c03_thread_no_early_return", ["C03"], [(MS, '''        let __key = #key_expr;

        if let Some(cached) = __cache.get(&__key) {
            #invalidation_check
        }
''', '''        let __key = #key_expr;

        if let Some(cached) = __cache.get(&__key) {
            let _ = cached;
        }
''')]),
 ("c03_async_store_only_every_other_key", ["C03"], [(MA, '''        quote! { __cache.insert(&__key, __result.clone()); }''', '''        quote! { if __key.len() % 3 != 0 { __cache.insert(&__key, __result.clone()); } }''')]),
 ("c05_global_oversize_check_removed", ["C05"], [(G, "            if new_value_size > max_mem {", "            if new_value_size > max_mem && false {")]),
 ("c05_async_loop_stops_early", ["C05"], [(A, "                if current_mem + value_size <= max_mem {", "                if current_mem <= max_mem {")]),
 ("c05_thread_loop_one_late", ["C05"], [(T, "                    if current_mem <= max_mem {", "                    if current_mem + 1 <= max_mem / 2 + max_mem / 2 {")]),
 ("c05_estimator_string_len", ["C05"], [(ME, "        std::mem::size_of::<Self>() + self.capacity()\n", "        std::mem::size_of::<Self>() + self.len()\n")]),
 ("c05_estimator_option_heap_dropped", ["C05"], [(ME, '''        size_of::<Self>()
            + self
                .as_ref()
                .map_or(0, |val| val.estimate_memory() - size_of_val(val))''', '''        size_of::<Self>()
            + self
                .as_ref()
                .map_or(0, |val| (val.estimate_memory() - size_of_val(val)) / 2)''')]),
 ("c05_estimator_vec_len_instead_of_capacity", ["C05"], [(ME, "        let buffer = self.capacity() * size_of::<T>();", "        let buffer = self.len() * size_of::<T>();")]),
 ("c05_estimator_tuple_second_field_dropped", ["C05"], [(ME, '''        size_of::<Self>()
            + (self.0.estimate_memory() - size_of_val(&self.0))
            + (self.1.estimate_memory() - size_of_val(&self.1))
    }
}

impl<T1, T2, T3>''', '''        size_of::<Self>()
            + (self.0.estimate_memory() - size_of_val(&self.0))
    }
}

impl<T1, T2, T3>''')]),
 ("c07_thread_lru_hit_no_move", ["C07"], [(T, '''                EvictionPolicy::LRU => {
                    // Move key to end of order queue (most recently used)
                    self.move_to_end(key);
                }''', '''                EvictionPolicy::LRU => {
                    // Move key to end of order queue (most recently used)
                }''')]),
 ("c07_async_fifo_pops_back", ["C07"], [(A, '''                        while let Some(evict_key) = order.pop_front() {
                            if self.cache.contains_key(&evict_key) {''', '''                        while let Some(evict_key) = order.pop_back() {
                            if self.cache.contains_key(&evict_key) {''')]),
 ("c07_global_mem_lru_no_move_on_get", ["C07"], [(G, '''                EvictionPolicy::LRU => {
                    // Move key to end of order queue (most recently used)
                    move_key_to_end(&mut self.order.lock(), key);
                }''', '''                EvictionPolicy::LRU => {
                    // Move key to end of order queue (most recently used)
                    if self.max_memory.is_none() {
                        move_key_to_end(&mut self.order.lock(), key);
                    }
                }''')]),
 ("c10_sync_predicate_inverted_on_memory_path", ["C10"], [(MS, '''            if #pred_fn(&__key, &__result) {
                #insert_call
            }''', '''            if #pred_fn(&__key, &__result) != #has_max_memory {
                #insert_call
            }''')]),
 ("c10_async_predicate_called_twice", ["C10"], [(MA, '''                if #pred_fn(&__key, &__result) {
                    #insert_call
                }''', '''                if #pred_fn(&__key, &__result) && #pred_fn(&__key, &__result) {
                    #insert_call
                }''')]),
 ("c10_thread_rejected_still_cached_with_limit", ["C10"], [(MS, '''            if #pred_fn(&__key, &__result) {
                #insert_call
            }''', '''            if #pred_fn(&__key, &__result) || __cache.limit.is_some() {
                #insert_call
            }''')]),
 ("c11_sync_stale_returned", ["C11"], [(MS, '''            if !#pred_fn(&__key, &cached) {
                // Function returned false, entry is valid
                return cached;
            }''', '''            if !#pred_fn(&__key, &cached) || __key.len() % 2 == 0 {
                // Function returned false, entry is valid
                return cached;
            }''')]),
 ("c13_sync_callback_forgets_queue", ["C13"], [(MS, '''                            map_write.remove(key);
                            if let Some(pos) = order_write.iter().position(|k| k == key) {
                                order_write.remove(pos);
                            }''', '''                            map_write.remove(key);
                            let _ = &mut order_write;''')]),
 ("c13_async_callback_forgets_queue", ["C13"], [(MA, '''                        #cache_ident.remove(key);
                        if let Some(pos) = order_write.iter().position(|k| k == key) {
                            order_write.remove(pos);
                        }''', '''                        #cache_ident.remove(key);
                        let _ = &mut order_write;''')]),
 ("c13_invalidate_with_hits_all_caches", ["C13"], [(INV, '''        if let Some(callback) = self.invalidation_check_callbacks.read().get(cache_name) {
            callback(&predicate);
            true''', '''        if self.invalidation_check_callbacks.read().get(cache_name).is_some() {
            for cb in self.invalidation_check_callbacks.read().values() {
                cb(&predicate);
            }
            true''')]),
 ("c12_event_lookup_in_tag_table", ["C12"], [(INV, '''        let cache_names = self
            .event_to_caches
            .read()
            .get(event)
            .cloned()
            .unwrap_or_default();

        self.invalidate_caches(&cache_names)''', '''        let cache_names = self
            .tag_to_caches
            .read()
            .get(event)
            .cloned()
            .unwrap_or_default();

        self.invalidate_caches(&cache_names)''')]),
 ("c13_sync_clear_callback_keeps_queue", ["C13", "C04"], [(MS, '''                            #cache_ident.write().clear();
                            order_write.clear();''', '''                            #cache_ident.write().clear();
                            let _ = &mut order_write;''')]),
 ("c12_dependency_registered_as_tag", ["C12"], [(INV, '''            for dep in &metadata.dependencies {
                dep_map''', '''            let mut tag_map2 = self.tag_to_caches.write();
            for dep in &metadata.dependencies {
                tag_map2.entry(dep.clone()).or_insert_with(HashSet::new).insert(cache_name.to_string());
                dep_map''')]),
 ("c12_async_clear_callback_clears_order_only", ["C12"], [(MA, '''                        #cache_ident.clear();
                        order_write.clear();''', '''                        order_write.clear();''')]),
 ("c12_invalidate_cache_requires_tag", ["C12"], [(MS, '''    let invalidation_registration = if !attrs.tags.is_empty()
        || !attrs.events.is_empty()
        || !attrs.dependencies.is_empty()
    {
        // ...existing code...''', '''    let invalidation_registration = if !attrs.tags.is_empty()
    {
        // ...existing code...''')]),
 ("c12_count_off_by_one", ["C12"], [(INV, '''            if let Some(callback) = callbacks.get(name) {
                callback();
                count += 1;
            }
        }

        count''', '''            if let Some(callback) = callbacks.get(name) {
                callback();
                count += 1;
            }
        }

        if count > 1 { count - 1 } else { count }''')]),
 ("c15_global_hit_on_expired_path", ["C15"], [(G, '''            remove_key_from_global_cache(&mut map_write, &mut o, key);
            #[cfg(feature = "stats")]
            self.stats.record_miss();''', '''            remove_key_from_global_cache(&mut map_write, &mut o, key);
            #[cfg(feature = "stats")]
            self.stats.record_hit();''')]),
 ("c15_stats_hits_not_atomic", ["C15"], [("cachelito-core/src/stats.rs", """        self.hits.fetch_add(1, Ordering::Relaxed);""", """        let h = self.hits.load(Ordering::Relaxed);
        self.hits.store(h + 1, Ordering::Relaxed);""")]),
 ("c15_async_miss_twice_on_expiry", ["C15"], [(A, '''            self.cache.remove(key);
            order.retain(|k| k != key);
        }

        // Record cache miss''', '''            self.cache.remove(key);
            order.retain(|k| k != key);
            #[cfg(feature = "stats")]
            self.stats.record_miss();
        }

        // Record cache miss''')]),
 ("c16_thread_lfu_reborrow", ["C16"], [(T, '''                        if let Some(evict_key) = min_freq_key {
                            self.cache.with(|c| {
                                remove_key_from_cache_local(&mut c.borrow_mut(), order, &evict_key)
                            });
                        }''', '''                        if let Some(evict_key) = min_freq_key {
                            self.remove_key(&evict_key);
                        }''')]),
 ("c14_thread_scope_attribute_ignored", ["C14", "C19"], [(MU, '''                    attrs.scope = if scope_str == "thread" {
                        quote! { cachelito_core::CacheScope::ThreadLocal }''', '''                    attrs.scope = if scope_str == "thread" {
                        quote! { cachelito_core::CacheScope::Global }''')]),
 ("c19_thread_scope_ignores_policy", ["C19", "C07"], [(MS, '''            #limit_expr,
            #max_memory_expr,
            #policy_expr,
            #ttl_expr,
            #frequency_weight_expr
        );''', '''            #limit_expr,
            #max_memory_expr,
            cachelito_core::EvictionPolicy::FIFO,
            #ttl_expr,
            #frequency_weight_expr
        );''')]),
 ("c19_async_ignores_frequency_weight", ["C19", "C08"], [(MA, '''            #ttl_expr,
            #frequency_weight_expr,
            &*#stats_ident,''', '''            #ttl_expr,
            Option::<f64>::None,
            &*#stats_ident,''')]),
 ("c19_sync_max_memory_ignored_when_limit_set", ["C19", "C05"], [(MS, '''    // Check if max_memory is None by comparing the token stream
    let has_max_memory = has_max_memory(max_memory_expr);

    let invalidation_check = generate_invalidation_check(invalidate_on);''', '''    // Check if max_memory is None by comparing the token stream
    let has_max_memory = has_max_memory(max_memory_expr) && limit_expr.to_string().contains("None");

    let invalidation_check = generate_invalidation_check(invalidate_on);''')]),
 ("c19_async_name_ignored_for_stats", ["C19", "C15"], [(MA, '''                cachelito_core::stats_registry::register(#fn_name_str, &#stats_ident);''', '''                cachelito_core::stats_registry::register(#fn_name_string, &#stats_ident);''')]),
 ("c19_mb_is_1000_kb", ["C19"], [(MU, "                        Ok(n) => n * 1024 * 1024,\n", "                        Ok(n) => n * 1000 * 1024,\n")]),
 ("c19_async_ttl_uses_limit_value", ["C19", "C06"], [(MA, '''            #policy_expr,
            #ttl_expr,
            #frequency_weight_expr,''', '''            #policy_expr,
            (#limit_expr).map(|l: usize| l as u64).or(#ttl_expr),
            #frequency_weight_expr,''')]),
 ("c19_invalid_scope_value_accepted_as_global", ["C19"], [(MU, '''                } else {
                    Err(
                        quote! { compile_error!("Invalid scope: expected \\"global\\" or \\"thread\\"") },
                    )
                }''', '''                } else {
                    Ok("global".to_string())
                }''')]),
 ("c19_kb_is_1000", ["C19"], [(MU, "                        Ok(n) => n * 1024,\n", "                        Ok(n) => n * 1000,\n")]),
 ("c19_unknown_attribute_ignored_sync", ["C19"], [(MU, '''                    "Unknown attribute: `{}`. Valid attributes are: limit, policy, ttl, scope, name, max_memory, tags, events, dependencies, invalidate_on, cache_if, frequency_weight",
                    attr_name
                );
                return Err(quote! { compile_error!(#err_msg) });''', '''                    "Unknown attribute: `{}`. Valid attributes are: limit, policy, ttl, scope, name, max_memory, tags, events, dependencies, invalidate_on, cache_if, frequency_weight",
                    attr_name
                );
                let _ = err_msg;''')]),
 ("c20_async_second_lookup_after_await", ["C20", "C15"], [(MA, '''        // Execute original async function (cache miss or expired)
        let __result = (async #block).await;
''', '''        // Execute original async function (cache miss or expired)
        let __result = (async #block).await;
        if let Some(__again) = __cache.get(&__key) {
            return __again;
        }
''')]),
 ("c20_async_shard_ref_across_await", ["C20"], [(MA, '''        // Execute original async function (cache miss or expired)
        let __result = (async #block).await;
''', '''        // Execute original async function (cache miss or expired)
        let __result = {
            let __peek = #cache_ident.iter().next();
            let __r = (async #block).await;
            drop(__peek);
            __r
        };
''')]),
 ("c20_async_guard_across_await", ["C20", "C17"], [(MA, '''        // Execute original async function (cache miss or expired)
        let __result = (async #block).await;
''', '''        // Execute original async function (cache miss or expired)
        let __result = {
            let __order_guard = #order_ident.lock();
            let __r = (async #block).await;
            drop(__order_guard);
            __r
        };
''')]),
 ("c18_sync_clear_two_sections", ["C18"], [(MS, '''                            let mut order_write = #order_ident.lock();
                            #cache_ident.write().clear();
                            order_write.clear();''', '''                            #cache_ident.write().clear();
                            #order_ident.lock().clear();''')]),
 ("c18_async_clear_two_sections", ["C18"], [(MA, '''                        let mut order_write = #order_ident.lock();
                        #cache_ident.clear();
                        order_write.clear();''', '''                        #cache_ident.clear();
                        #order_ident.lock().clear();''')]),
 ("c18_async_expiry_two_sections", ["C18"], [(A, '''            let mut order = self.order.lock();
            self.cache.remove(key);
            order.retain(|k| k != key);''', '''            self.cache.remove(key);
            let mut order = self.order.lock();
            order.retain(|k| k != key);''')]),
 ("c18_async_insert_store_before_order_lock", ["C18"], [(A, '''        // Add the new entry to the order queue
        order.push_back(key.to_string());

        // Insert into cache with frequency initialized to 0
        self.cache.insert(key.to_string(), (value, timestamp, 0));
    }

    /// Prepares the replacement''', '''        // Add the new entry to the order queue
        order.push_back(key.to_string());
        drop(order);

        // Insert into cache with frequency initialized to 0
        self.cache.insert(key.to_string(), (value, timestamp, 0));
    }

    /// Prepares the replacement''')]),
 ("c18_global_lru_get_returns_value_of_concurrent_key", ["C18"], [(G, '''                EvictionPolicy::LRU => {
                    // Move key to end of order queue (most recently used)
                    move_key_to_end(&mut self.order.lock(), key);
                }''', '''                EvictionPolicy::LRU => {
                    // Move key to end of order queue (most recently used)
                    move_key_to_end(&mut self.order.lock(), key);
                    if let Some(last) = self.order.lock().back().cloned() {
                        result = self.map.read().get(&last).map(|e| e.value.clone());
                    }
                }''')]),
 ("c17_async_get_holds_shard_guard_while_locking_queue", ["C17"], [(A, '''                drop(entry_ref);

                // Record cache hit''', '''                let _keep = entry_ref;

                // Record cache hit''')]),
 ("c17_stats_reset_takes_registry_write_then_calls_list", ["C17"], [(INV, '''    pub fn invalidate_cache(&self, cache_name: &str) -> bool {
        if let Some(callback) = self.clear_callbacks.read().get(cache_name) {''', '''    pub fn invalidate_cache(&self, cache_name: &str) -> bool {
        let _w = self.cache_metadata.write();
        let _r = self.tag_to_caches.read();
        if let Some(callback) = self.clear_callbacks.read().get(cache_name) {'''), (INV, '''    pub fn invalidate_by_tag(&self, tag: &str) -> usize {
        let cache_names = self''', '''    pub fn invalidate_by_tag(&self, tag: &str) -> usize {
        let _w = self.tag_to_caches.write();
        let _r = self.cache_metadata.read();
        drop(_r);
        drop(_w);
        let _w2 = self.tag_to_caches.write();
        let _r2 = self.cache_metadata.read();
        drop(_r2);
        drop(_w2);
        let cache_names = self''')]),
 ("c18_globalcache_clear_two_sections", ["C18"], [(G, '''        let mut o = self.order.lock();
        self.map.write().clear();
        o.clear();''', '''        self.map.write().clear();
        self.order.lock().clear();''')]),
 ("c18_global_insert_order_before_map", ["C18"], [(G, '''        // Acquire write lock for modification
        self.map.write().insert(key_s.clone(), entry);

        let mut o = self.order.lock();
        if let Some(pos) = o.iter().position(|k| *k == key_s) {
            o.remove(pos);
        }
        o.push_back(key_s.clone());

        // Always handle entry-count limits, regardless of memory limits
        self.handle_entry_limit_eviction(&mut o);''', '''        {
            let mut o = self.order.lock();
            if let Some(pos) = o.iter().position(|k| *k == key_s) {
                o.remove(pos);
            }
            o.push_back(key_s.clone());

            // Always handle entry-count limits, regardless of memory limits
            self.handle_entry_limit_eviction(&mut o);
        }
        // Acquire write lock for modification
        self.map.write().insert(key_s.clone(), entry);''')]),
 ("c17_sync_callback_lock_order_inverted", ["C17"], [(MS, '''                        let mut order_write = #order_ident.lock();
                        let mut map_write = #cache_ident.write();
''', '''                        let mut map_write = #cache_ident.write();
                        let mut order_write = #order_ident.lock();
''')]),
]


ENV = dict(os.environ, VERIF_REPLAY_DIR="/verif/work/mutant_replays", VERIF_EVIDENCE_DIR="/verif/work/mutant_evidence")


def sh(cmd, **kw):
    return subprocess.run(cmd, shell=True, capture_output=True, text=True, env=ENV, **kw)


def restore():
    sh("git checkout -- .", cwd=REPO)


def apply(edits):
    for f, old, new in edits:
        p = os.path.join(REPO, f)
        s = open(p).read()
        n = s.count(old)
        if n != 1:
            return f"{f}: anchor occurs {n} times"
        open(p, "w").write(s.replace(old, new))
    return None


def main():
    args = [a for a in sys.argv[1:] if not a.startswith("--")]
    tier = "quick"
    all_checks = "--all-checks" in sys.argv
    if "--tier" in sys.argv:
        tier = sys.argv[sys.argv.index("--tier") + 1]
        args = [a for a in args if a != tier]
    available = set(sh("/verif/run list").stdout.split())
    assert sh("git status --porcelain", cwd=REPO).stdout.strip() == "", "/repo has uncommitted changes"
    results = []
    try:
        for name, props, edits in MUTANTS:
            if args and not any(a in name for a in args):
                continue
            err = apply(edits)
            if err:
                restore()
                print(f"{name:45s} SKIP (does not apply: {err})")
                results.append((name, "skip", err))
                continue
            checks = sorted(available) if all_checks else [p for p in props if p in available]
            killed_by, ran = [], []
            t0 = time.time()
            for c in checks:
                r = sh(f"VERIF_TIER={tier} /verif/run check {c} --tier {tier}")
                ran.append((c, r.returncode))
                if r.returncode == 1 and "VIOLATION" in r.stdout:
                    sig = [l for l in r.stdout.splitlines() if l.startswith("VIOLATION")][0].split("signature=")[-1]
                    killed_by.append(f"{c}[{sig}]")
                elif r.returncode == 2:
                    killed_by.append(f"{c}[exit2:{(r.stderr.strip().splitlines() or ['?'])[-1][:80]}]")
            restore()
            status = "KILLED" if any("exit2" not in k for k in killed_by) else ("EXIT2" if killed_by else ("NOCHECK" if not checks else "SURVIVED"))
            print(f"{name:45s} {status:9s} {' '.join(killed_by)}  ran={ran} {time.time()-t0:.0f}s", flush=True)
            results.append((name, status, killed_by))
    finally:
        restore()
    # clean replays produced by the campaign
    json.dump(results, open("/verif/work/mutants_last.json", "w"), indent=1)


if __name__ == "__main__":
    main()
